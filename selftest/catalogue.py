"""Self-test catalogue: textual edits of /repo's sources (each anchor must occur exactly once).
B = breaking edit that keeps the test-suite green: the property's check must report it at `expect`.
N = behaviour-preserving edit: the check must stay silent."""

MD = "src/multidecoder/multidecoder.py"
NODE = "src/multidecoder/node.py"
KW = "src/multidecoder/keyword.py"
REG = "src/multidecoder/registry.py"
JS = "src/multidecoder/json_conversion.py"
QUERY = "src/multidecoder/query.py"
MAIN = "src/multidecoder/__main__.py"
D = "src/multidecoder/decoders/"

CATALOGUE = []


def B(prop, name, file, old, new, expect, **kw):
    CATALOGUE.append(dict(prop=prop, kind="B", name=name, file=file, old=old, new=new, expect=expect, **kw))


def N(prop, name, file, old, new, **kw):
    CATALOGUE.append(dict(prop=prop, kind="N", name=name, file=file, old=old, new=new, **kw))


# ------------------------------------------------------------------ C07
B("C07", "decoded-arm passes depth unchanged", MD, "self.scan_node(hit, depth_limit - 1)", "self.scan_node(hit, depth_limit)", "R2-decrement")
B("C07", "children-arm passes depth unchanged", MD, "self.scan_node(child, depth_limit - 1)", "self.scan_node(child, depth_limit)", "R2-decrement")
B("C07", "recursion drops the depth argument", MD, "self.scan_node(hit, depth_limit - 1)", "self.scan_node(hit)", "R2-decrement")
B("C07", "depth + 1", MD, "self.scan_node(hit, depth_limit - 1)", "self.scan_node(hit, depth_limit + 1)", "R2-decrement")
B("C07", "guard < 0", MD, "if depth_limit <= 0:", "if depth_limit < 0:", "R1-")
B("C07", "guard == 0", MD, "if depth_limit <= 0:", "if depth_limit == 0:", "R1-")
B("C07", "guard below children arm", MD,
  "        if depth_limit <= 0:\n            return node\n        if node.children:\n            # Don't rescan nodes with existing children\n            for child in node.children:\n                self.scan_node(child, depth_limit - 1)\n            return node\n",
  "        if node.children:\n            # Don't rescan nodes with existing children\n            for child in node.children:\n                self.scan_node(child, depth_limit - 1)\n            return node\n        if depth_limit <= 0:\n            return node\n",
  "R1-guard-dominance")
B("C07", "scan passes a constant", MD, "Node(\"\", data, \"\", 0, len(data)), depth_limit)", "Node(\"\", data, \"\", 0, len(data)), DEFAULT_DEPTH_LIMIT)", "R2-decrement")
B("C07", "depth in sort key", MD, "key=lambda t: (t.start, -t.end),", "key=lambda t: (t.start, -t.end * depth_limit),", "R3-noninterference")
B("C07", "depth passed to decoders", MD, "for hit in search(node.value) if hit.value", "for hit in search(node.value[: 4096 * depth_limit]) if hit.value", "R3-noninterference")
B("C07", "guard returns a copy", MD, "        if depth_limit <= 0:\n            return node\n", "        if depth_limit <= 0:\n            return Node(node.type, node.value)\n", "R1-bare-return")
B("C07", "children arm walks the whole subtree (seed s43)", MD, "            for child in node.children:\n                self.scan_node(child, depth_limit - 1)", "            for child in node:\n                self.scan_node(child, depth_limit - 1)", "R4-one-level-per-call")
B("C07", "decoded arm re-scans the parent", MD, "self.scan_node(hit, depth_limit - 1)", "self.scan_node(hit.parent, depth_limit - 1)", "R")
N("C07", "guard < 1", MD, "if depth_limit <= 0:", "if depth_limit < 1:")
N("C07", "guard not > 0", MD, "if depth_limit <= 0:", "if not depth_limit > 0:")
N("C07", "temporary for remaining depth", MD, "        stack: list[Node] = []\n", "        remaining = depth_limit - 1\n        stack: list[Node] = []\n",
  also=[])
N("C07", "remaining depth via temp used", MD, "                self.scan_node(hit, depth_limit - 1)", "                remaining = depth_limit - 1\n                self.scan_node(hit, remaining)")
N("C07", "keyword depth argument", MD, "self.scan_node(hit, depth_limit - 1)", "self.scan_node(hit, depth_limit=depth_limit - 1)")

# ------------------------------------------------------------------ C04
B("C04", "offset += hit.end", MD, "offset += hit.start", "offset += hit.end", "V8/context-arm/offset")
B("C04", "offset -= node.end", MD, "offset -= node.start", "offset -= node.end", "V4/pop-rebases-offset")
B("C04", "shift(+offset)", MD, "hit.shift(-offset)", "hit.shift(offset)", "V5/rebased-span")
B("C04", "no shift", MD, "            hit.shift(-offset)\n", "", "V5/")
B("C04", "shift twice", MD, "            hit.shift(-offset)\n", "            hit.shift(-offset)\n            hit.shift(-offset)\n", "V5/")
B("C04", "shift above the pop loop", MD,
  "            while hit.end > offset + len(node.value):\n                offset -= node.start\n                if stack:  # Todo: Log here\n                    node = stack.pop()\n            hit.shift(-offset)\n",
  "            hit.shift(-offset)\n            while hit.end > offset + len(node.value):\n                offset -= node.start\n                if stack:  # Todo: Log here\n                    node = stack.pop()\n",
  "V4/")
B("C04", "context test not length preserving", MD, "if hit.value.lower() != hit.original.lower() or hit.children:", "if hit.obfuscation or hit.children:", "V8/decoded-test")
B("C04", "Node.shift touches only start", NODE, "        self.start += offset\n        self.end += offset\n        return self", "        self.start += offset\n        return self", "V5/Node.shift-summary")
B("C04", "push in decoded arm", MD, "                self.scan_node(hit, depth_limit - 1)\n", "                self.scan_node(hit, depth_limit - 1)\n                stack.append(node)\n", "V8/decoded-arm/no-push")
B("C04", "pop order swapped", MD,
  "                offset -= node.start\n                if stack:  # Todo: Log here\n                    node = stack.pop()\n",
  "                if stack:  # Todo: Log here\n                    node = stack.pop()\n                offset -= node.start\n", "V4/pop-rebases-offset")
B("C04", "hit.parent dropped", MD, "            hit.parent = node\n", "", "V7/parent-pairing")
B("C04", "attached to the bottom of the stack", MD, "            node.children.append(hit)\n", "            (stack[0] if stack else node).children.append(hit)\n", "V7/attach-to-NODE")
B("C04", "shift_nodes only start", NODE, "        node.start += offset\n        node.end += offset\n", "        node.start += offset\n", "R-shift-nodes")
B("C04", "original ignores start", NODE, "return self.parent.value[self.start : self.end]", "return self.parent.value[: self.end]", "R-original")
B("C04", "direct span write", MD, "            hit.parent = node\n", "            hit.parent = node\n            hit.end = hit.end + 0 * offset + 1\n", "V")
N("C04", "offset = offset + hit.start", MD, "offset += hit.start", "offset = offset + hit.start")
N("C04", "shift via temp", MD, "            hit.shift(-offset)\n", "            rel = -offset\n            hit.shift(rel)\n")
N("C04", "swapped attach statements", MD, "            hit.parent = node\n            node.children.append(hit)\n", "            node.children.append(hit)\n            hit.parent = node\n")
N("C04", "rearranged pop comparison", MD, "while hit.end > offset + len(node.value):", "while hit.end - offset > len(node.value):")
N("C04", "hoisted len", MD, "            while hit.end > offset + len(node.value):\n                offset -= node.start\n", "            while hit.end > offset + len(node.value):\n                offset = offset - node.start\n")

# ------------------------------------------------------------------ C05
B("C05", "key (start, end)", MD, "key=lambda t: (t.start, -t.end)", "key=lambda t: (t.start, t.end)", "V2/sort-key")
B("C05", "key (-start, -end)", MD, "key=lambda t: (t.start, -t.end)", "key=lambda t: (-t.start, -t.end)", "V2/sort-key")
B("C05", "reverse=True", MD, "key=lambda t: (t.start, -t.end),", "key=lambda t: (t.start, -t.end), reverse=True,", "V2/no-reverse")
B("C05", "skip <", MD, "if hit.end <= decode_end:", "if hit.end < decode_end:", "V3/")
B("C05", "pop >=", MD, "while hit.end > offset + len(node.value):", "while hit.end >= offset + len(node.value):", "V4/pop-condition")
B("C05", "frame slip re-introduced", MD, "decode_end = hit.end + offset", "decode_end = hit.end", "V8/decoded-arm/dend")
B("C05", "decode_end = start", MD, "decode_end = hit.end + offset", "decode_end = hit.start + offset", "V8/decoded-arm/dend")
B("C05", "decode_end updated in context arm", MD, "                stack.append(node)\n", "                decode_end = hit.end + offset\n                stack.append(node)\n", "V8/context-arm/dend")
B("C05", "skip test after shift", MD,
  "            if hit.end <= decode_end:\n                continue\n            # Return to the context that contains the current hit\n            while hit.end > offset + len(node.value):\n                offset -= node.start\n                if stack:  # Todo: Log here\n                    node = stack.pop()\n            hit.shift(-offset)\n",
  "            # Return to the context that contains the current hit\n            while hit.end > offset + len(node.value):\n                offset -= node.start\n                if stack:  # Todo: Log here\n                    node = stack.pop()\n            hit.shift(-offset)\n            if hit.end <= decode_end:\n                continue\n",
  "V3/")
B("C05", "pop on start", MD, "while hit.end > offset + len(node.value):", "while hit.start > offset + len(node.value):", "V4/pop-condition")
N("C05", "flipped skip comparison", MD, "if hit.end <= decode_end:", "if decode_end >= hit.end:")
N("C05", "absolute end saved before the shift", MD, "", "", edits=[("            hit.shift(-offset)\n", "            abs_end = hit.end\n            hit.shift(-offset)\n"), ("decode_end = hit.end + offset", "decode_end = abs_end")])
N("C05", "key via scaled tuple", MD, "key=lambda t: (t.start, -t.end)", "key=lambda t: (2 * t.start, -(t.end))")
N("C05", "max with previous decode_end", MD, "decode_end = hit.end + offset", "decode_end = max(decode_end, hit.end + offset)")

# ------------------------------------------------------------------ C06
B("C06", "self-match without start == 0", MD, "if hit.start == 0 and hit.value == node.value and hit.type == node.type:", "if hit.value == node.value and hit.type == node.type:", "V6/self-match-formula")
B("C06", "self-match without type", MD, "if hit.start == 0 and hit.value == node.value and hit.type == node.type:", "if hit.start == 0 and hit.value == node.value:", "V6/self-match-formula")
B("C06", "self-match tested before the shift", MD,
  "            hit.shift(-offset)\n            # Prevent analyzer rematching its own decoded output\n            if hit.start == 0 and hit.value == node.value and hit.type == node.type:\n                continue\n",
  "            # Prevent analyzer rematching its own decoded output\n            if hit.start == 0 and hit.value == node.value and hit.type == node.type:\n                continue\n            hit.shift(-offset)\n",
  "V6/self-match-frame")
B("C06", "children arm also runs the decoders", MD, "                self.scan_node(child, depth_limit - 1)\n            return node\n", "                self.scan_node(child, depth_limit - 1)\n", "V8c/")
B("C06", "extra drop of untyped hits", MD, "            hit.parent = node\n", "            if hit.type == \"\" and not hit.obfuscation:\n                continue\n            hit.parent = node\n", "V10/extra-drop")
B("C06", "generator filters on children", MD, "for hit in search(node.value) if hit.value", "for hit in search(node.value) if hit.value and not hit.children", "V2/generator-shape")
B("C06", "generator filter removed", MD, "for hit in search(node.value) if hit.value", "for hit in search(node.value)", "V2/generator-shape")
B("C06", "return node", MD, "return stack[0] if stack else node", "return node", "V9/return-root")
B("C06", "return top of stack", MD, "return stack[0] if stack else node", "return stack[-1] if stack else node", "V9/return-root")
B("C06", "break on first decoded", MD, "                self.scan_node(hit, depth_limit - 1)\n", "                self.scan_node(hit, depth_limit - 1)\n                break\n", "V10/no-early-exit")
B("C06", "children arm scans the node again", MD, "self.scan_node(child, depth_limit - 1)", "self.scan_node(node, depth_limit - 1)", "V8c/children-arm/descend")
B("C06", "insert at front", MD, "node.children.append(hit)", "node.children.insert(0, hit)", "V7/attach-append")
B("C06", "extra tie-breaker in the key", MD, "key=lambda t: (t.start, -t.end)", "key=lambda t: (t.start, -t.end, t.type)", "V2/sort-key")
N("C06", "De Morgan on the decoded test", MD, "if hit.value.lower() != hit.original.lower() or hit.children:", "if not (hit.value.lower() == hit.original.lower() and not hit.children):")
N("C06", "return via if statement", MD, "        return stack[0] if stack else node\n", "        if stack:\n            return stack[0]\n        return node\n")
N("C06", "self-match operands reordered", MD, "if hit.start == 0 and hit.value == node.value and hit.type == node.type:", "if node.type == hit.type and hit.value == node.value and 0 == hit.start:")

# ------------------------------------------------------------------ C17
B("C17", "boundary and -> or", KW, "        if (start == 0 or not data[start - 1 : start].isalnum()) and (\n            end == len(data) or not data[end : end + 1].isalnum()\n        ):", "        if (start == 0 or not data[start - 1 : start].isalnum()) or (\n            end == len(data) or not data[end : end + 1].isalnum()\n        ):", "R1-boundary")
# behaviour-preserving: at end == len(data) the slice is empty and b"".isalnum() is False (was listed as breaking until the boundary rule learnt the empty-slice fact)
N("C17", "end == len(data) dropped (the empty slice is not alphanumeric)", KW, "            end == len(data) or not data[end : end + 1].isalnum()\n", "            not data[end : end + 1].isalnum()\n")
B("C17", "byte after the occurrence no longer tested", KW, "            end == len(data) or not data[end : end + 1].isalnum()\n", "            end <= len(data)\n", "R1-boundary")
B("C17", "isalpha for isalnum", KW, "not data[start - 1 : start].isalnum()", "not data[start - 1 : start].isalpha()", "R1-boundary")
B("C17", "left neighbour off by one", KW, "not data[start - 1 : start].isalnum()", "not data[start - 2 : start - 1].isalnum()", "R1-boundary")
B("C17", "search on un-lowered data", KW, "for start in find_all(keyword.lower(), lower)", "for start in find_all(keyword.lower(), data)", "R2-lowering")
B("C17", "keyword not lowered", KW, "for start in find_all(keyword.lower(), lower)", "for start in find_all(keyword, lower)", "R2-lowering")
B("C17", "advance by one", KW, "start = data.find(keyword, start + len(keyword))", "start = data.find(keyword, start + 1)", "R3-advance")
B("C17", "advance from end + 1", KW, "start = data.find(keyword, start + len(keyword))", "start = data.find(keyword, end + 1)", "R3-advance")
B("C17", "value is the matched text", KW, "            label,\n            keyword,\n", "            label,\n            data[start : start + len(keyword)],\n", "R4-roles")
B("C17", "value is lowered keyword", KW, "            label,\n            keyword,\n", "            label,\n            keyword.lower(),\n", "R4-roles")
B("C17", "span end uses len(data)", KW, "            start + len(keyword),\n        )", "            start + len(data),\n        )", "R4-roles")
B("C17", "mixed-case guard loses islower", KW, "if raw.isupper() or raw.islower():", "if raw.isupper():", "R5-mixedcase")
B("C17", "mixed-case compares lowered data", KW, "is_mixed_case(keyword, data[start : start + len(keyword)])", "is_mixed_case(keyword, lower[start : start + len(keyword)])", "R5-mixedcase")
B("C17", "empty keyword guard removed", KW, "    if not keyword:\n        return []\n", "", "R6-empty-keyword")
B("C17", "first search from 1", KW, "    start = data.find(keyword)\n", "    start = data.find(keyword, 1)\n", "R3-advance")
B("C17", "loop while start > 0", KW, "while start >= 0:", "while start > 0:", "R3-advance")
N("C17", "guard via named booleans", KW, "        if (start == 0 or not data[start - 1 : start].isalnum()) and (\n            end == len(data) or not data[end : end + 1].isalnum()\n        ):", "        left_ok = start == 0 or not data[start - 1 : start].isalnum()\n        right_ok = end == len(data) or not data[end : end + 1].isalnum()\n        if left_ok and right_ok:")
N("C17", "find with explicit 0", KW, "    start = data.find(keyword)\n", "    start = data.find(keyword, 0)\n")
N("C17", "advance via end", KW, "start = data.find(keyword, start + len(keyword))", "start = data.find(keyword, end)")
N("C17", "loop while start != -1 style", KW, "while start >= 0:", "while start > -1:")
N("C17", "De Morgan boundary", KW, "        if (start == 0 or not data[start - 1 : start].isalnum()) and (\n            end == len(data) or not data[end : end + 1].isalnum()\n        ):", "        if not ((start != 0 and data[start - 1 : start].isalnum()) or (\n            end != len(data) and data[end : end + 1].isalnum()\n        )):")

# ------------------------------------------------------------------ C18
B("C18", "@decoder line deleted", D + "chr.py", "@decoder\ndef find_chr", "def find_chr", "R2-census")
B("C18", "marker renamed on the writer side", REG, "    func._decoder = True\n", "    func._is_decoder = True\n", "R1-marker")
B("C18", "marker renamed on the reader side", REG, 'if hasattr(function, "_decoder"):', 'if hasattr(function, "decoder"):', "R1-marker")
B("C18", "include test inverted", REG, "if include and submod_info.name not in include:", "if include and submod_info.name in include:", "R3-filter")
B("C18", "exclude test inverted", REG, "if exclude and submod_info.name in exclude:", "if exclude and submod_info.name not in exclude:", "R3-filter")
B("C18", "exclude only honoured with include", REG, "if exclude and submod_info.name in exclude:", "if include and exclude and submod_info.name in exclude:", "R3-filter")
B("C18", "os.listdir instead of os.walk", REG, "    for subdir, dirs, files in os.walk(directory):\n        dirs.sort()  # visit sub-directories in a reproducible order\n", "    for subdir, files in [(directory, os.listdir(directory))]:\n", "R4-keyword-walk")
B("C18", "label is the full path", REG, "partial(find_keywords, file_name, sorted(keywords))", "partial(find_keywords, os.path.join(subdir, file_name), sorted(keywords))", "R4-keyword-walk")
B("C18", "blank lines kept", REG, '                keywords.discard(b"")\n', "", "R4-keyword-walk")
B("C18", "text mode", REG, 'open(os.path.join(subdir, file_name), "rb")', 'open(os.path.join(subdir, file_name), "r")', "R4-keyword-walk")
B("C18", "build_registry ignores directory", REG, "keywords = get_keywords(directory)", "keywords = get_keywords()", "R5-config")
B("C18", "build_registry drops exclude", REG, "get_analyzers(include=include, exclude=exclude)", "get_analyzers(include=include)", "R5-config")
B("C18", "decoder returns nothing", REG, "    func._decoder = True\n    return func\n", "    func._decoder = True\n", "R1-marker")
B("C18", "empty files registered", REG, "            if not keywords:\n                continue\n", "", "R4-keyword-walk")
B("C18", "directory also filters analyzers", REG, "keywords.extend(get_analyzers(include=include, exclude=exclude))", "keywords.extend(get_analyzers(include=include, exclude=exclude) if not directory else [])", "R5-config")
B("C18", "CLI ignores --keywords", MAIN, "decoders = build_registry(args.keywords)", "decoders = build_registry()", "R5-config")
B("C18", "decoder imported by name into another module", D + "reverse.py", "from multidecoder.hit import find_and_deobfuscate\n", "from multidecoder.hit import find_and_deobfuscate\nfrom multidecoder.decoders.concat import find_concat  # noqa: F401\n", "R2-census")
B("C18", "hidden files skipped", REG, "        for file_name in sorted(files):\n", "        for file_name in sorted(files):\n            if file_name.startswith(\".\") or \".\" in file_name:\n                continue\n", "R4-keyword-walk")
N("C18", "filter merged into one condition", REG, "        if include and submod_info.name not in include:\n            continue\n        if exclude and submod_info.name in exclude:\n            continue\n", "        if (include and submod_info.name not in include) or (exclude and submod_info.name in exclude):\n            continue\n")
N("C18", "file enumeration through list()", REG, "        for file_name in sorted(files):\n", "        for file_name in sorted(list(files)):\n")
N("C18", "keyword list sorted through a temporary", REG, "            keyword_map.append(partial(find_keywords, file_name, sorted(keywords)))", "            ordered = sorted(keywords)\n            keyword_map.append(partial(find_keywords, file_name, ordered))")
N("C18", "setattr marker", REG, "    func._decoder = True\n", '    setattr(func, "_decoder", True)\n')
B("C07", "decode_end bookkeeping under a depth guard", MD, "                decode_end = hit.end + offset\n                self.scan_node(hit, depth_limit - 1)\n", "                if depth_limit > 1:\n                    decode_end = hit.end + offset\n                    self.scan_node(hit, depth_limit - 1)\n", "R3-control-independence")
N("C07", "skip the recursive call that would return at once", MD, "                self.scan_node(hit, depth_limit - 1)\n", "                if depth_limit > 1:\n                    self.scan_node(hit, depth_limit - 1)\n")
B("C07", "skip the recursive call one level too early", MD, "                self.scan_node(hit, depth_limit - 1)\n", "                if depth_limit > 2:\n                    self.scan_node(hit, depth_limit - 1)\n", "R3-control-independence")

# ------------------------------------------------------------------ C20
B("C20", "key dropped from node_to_dict", JS, '        "obfuscation": node.obfuscation,\n', "", "R1-fields")
B("C20", "end written from start", JS, '"end": node.end,', '"end": node.start,', "R1-fields")
B("C20", "field dropped from __eq__", NODE, "            and self.obfuscation == other.obfuscation\n", "", "R1-fields/node.Node.__eq__/fields")
B("C20", "or for one and in __eq__", NODE, "and self.end == other.end", "or self.end == other.end", "R1-fields/node.Node.__eq__/conjunction")
B("C20", "children not compared", NODE, "            and self.children == other.children\n", "", "R1-fields/node.Node.__eq__/fields")
B("C20", "default= re-introduced", JS, "return as_node(json.loads(serialized, **kargs))", "return json.loads(serialized, default=as_node, **kargs)", "R2-json-api")
B("C20", "object_hook instead of top-down rebuild", JS, "return as_node(json.loads(serialized, **kargs))", "return json.loads(serialized, object_hook=as_node, **kargs)", "R2-json-api")
B("C20", "parent not passed in as_node", JS, "[as_node(child, node) for child in d[\"children\"]]", "[as_node(child) for child in d[\"children\"]]", "R1-fields/json_conversion.as_node/children")
B("C20", "value not hex-decoded", JS, 'value=bytes.fromhex(d["value"]),', 'value=d["value"].encode(),', "R1-fields/json_conversion.as_node/value")
B("C20", "start read from end", JS, 'start=d["start"],', 'start=d["end"],', "R1-fields/json_conversion.as_node/start")
B("C20", "CLI opens in text mode", MAIN, 'with open(args.filepath, "rb") as f:', 'with open(args.filepath, "r") as f:', "R3-cli/__main__.main/input-bytes")
B("C20", "CLI reads text stdin", MAIN, "data = sys.stdin.buffer.read()", "data = sys.stdin.read()", "R3-cli/__main__.main/input-bytes")
B("C20", "--json prints the children only", MAIN, "print(tree_to_json(tree))", "print(tree_to_json(tree.children))", "R3-cli/__main__.main/--json")
B("C20", "CLI scans with a custom depth", MAIN, "tree = md.scan(data)", "tree = md.scan(data, 5)", "R3-cli/__main__.main/tree-is-library-scan")
B("C20", "summary skips untyped nodes", QUERY, 'return [make_label(node) + " " + repr(node.value)[2:-1] for node in tree]', 'return [make_label(node) + " " + repr(node.value)[2:-1] for node in tree if node.type]', "R3-cli/query.string_summary")
B("C20", "label not reversed", QUERY, 'return "/".join(label_list[::-1])', 'return "/".join(label_list)', "R3-cli/query.make_label")
B("C20", "label drops obfuscation of untyped nodes", QUERY, "        if node.obfuscation:\n            label_list.append(\">\" + node.obfuscation)\n", "        if node.type and node.obfuscation:\n            label_list.append(\">\" + node.obfuscation)\n", "R3-cli/query.make_label")
B("C20", "--replace flattens the root value", MAIN, "squash_replace(data, tree.children)", "squash_replace(data, tree.children[:1])", "R4-replace")
B("C20", "iteration post-order", NODE, "                yield child\n                yield from node_generator(child)\n", "                yield from node_generator(child)\n                yield child\n", "R3-cli/node.Node.__iter__")
B("C20", "constructor forgets to pair supplied children", NODE, "            for child in children:\n                child.parent = self\n", "", "R1-fields/node.Node.__init__/children-parent-pairing")
N("C20", "dict built with dict()", JS, '    return {\n        "type": node.type,\n        "value": node.value.hex(),\n        "obfuscation": node.obfuscation,\n        "start": node.start,\n        "end": node.end,\n        # Ignore parent to avoid circularity\n        "children": [node_to_dict(child) for child in node.children],\n    }', '    return dict(\n        type=node.type,\n        value=node.value.hex(),\n        obfuscation=node.obfuscation,\n        start=node.start,\n        end=node.end,\n        children=[node_to_dict(child) for child in node.children],\n    )')
N("C20", "__eq__ via tuple comparison", NODE, "            and self.type == other.type\n            and self.value == other.value\n", "            and (self.type, self.value) == (other.type, other.value)\n")
N("C20", "as_node positional", JS, '        type_=d["type"],\n        value=bytes.fromhex(d["value"]),\n', '        d["type"],\n        bytes.fromhex(d["value"]),\n')

# ------------------------------------------------------------------ C19
B("C19", "offset = node.start", NODE, "                offset = node.end\n        output.append(self.value[offset:])", "                offset = node.start\n        output.append(self.value[offset:])", "R-tiling")
B("C19", "tail slice dropped", NODE, "        output.append(self.value[offset:])\n", "", "R-tiling/node.Node.flatten/tail")
B("C19", "skip test <=", NODE, "if node.start < offset:", "if node.start <= offset:", "R-tiling/node.Node.flatten/case")
B("C19", "skip test on end", NODE, "if node.start < offset:", "if node.end < offset:", "R-tiling/node.Node.flatten/case")
B("C19", "raw slice from 0", NODE, "output.append(self.value[offset : node.start])", "output.append(self.value[: node.start])", "R-tiling/node.Node.flatten/case")
B("C19", "quote test startswith", NODE, 'if node.type.endswith("string"):', 'if node.type.startswith("string"):', "R-tiling/node.Node.flatten/case")
B("C19", "unchanged child still advances offset", NODE, "                output.append(node_data)\n                offset = node.end\n", "                output.append(node_data)\n            offset = node.end\n", "R-tiling/node.Node.flatten/case")
B("C19", "child data before raw slice", NODE, "                output.append(self.value[offset : node.start])\n                if node.type.endswith(\"string\"):\n                    node_data = b'\"' + node_data + b'\"'\n                output.append(node_data)\n", "                if node.type.endswith(\"string\"):\n                    node_data = b'\"' + node_data + b'\"'\n                output.append(node_data)\n                output.append(self.value[offset : node.start])\n", "R-tiling/node.Node.flatten/case")
B("C19", "flatten uses child value not its flattening", NODE, "node_data = node.flatten()", "node_data = node.value", "R-tiling/node.Node.flatten/case")
B("C19", "squash_replace without offset update", QUERY, "            output.append(node_data)\n            offset = node.end\n", "            output.append(node_data)\n", "R-tiling/query.squash_replace/case")
B("C19", "squash_replace compares with node.value", QUERY, "if node_data != data[node.start : node.end]:", "if node_data != node.value:", "R-tiling/query.squash_replace/case")
B("C19", "flatten single quotes", NODE, "node_data = b'\"' + node_data + b'\"'", "node_data = b\"'\" + node_data + b\"'\"", "R-tiling/node.Node.flatten/case")
N("C19", "output += [...]", NODE, "                output.append(self.value[offset : node.start])\n", "                output += [self.value[offset : node.start]]\n")
N("C19", "slice bound to a temporary", NODE, "            if node_data != self.value[node.start : node.end]:\n", "            covered = self.value[node.start : node.end]\n            if node_data != covered:\n")
N("C19", "skip test flipped", NODE, "if node.start < offset:", "if offset > node.start:")
N("C19", "nested if instead of continue", NODE, "            if node.start < offset:\n                continue  # Only take the first of overlapping values\n            node_data = node.flatten()\n            if node_data != self.value[node.start : node.end]:\n", "            node_data = node.flatten()\n            if node.start >= offset and node_data != self.value[node.start : node.end]:\n")

# ------------------------------------------------------------------ C09
XT = "src/multidecoder/xortool.py"
NET = D + "network.py"
B("C09", "sorted(keywords) removed", REG, "partial(find_keywords, file_name, sorted(keywords))", "partial(find_keywords, file_name, keywords)", "R1-order-taint")
B("C09", "sorted(files) removed", REG, "for file_name in sorted(files):", "for file_name in files:", "R1-order-taint")
B("C09", "dirs.sort() removed", REG, "        dirs.sort()  # visit sub-directories in a reproducible order\n", "", "R1-order-taint")
B("C09", "os.listdir replaces the sorted walk", REG, "    for subdir, dirs, files in os.walk(directory):\n        dirs.sort()  # visit sub-directories in a reproducible order\n        for file_name in sorted(files):\n", "    for subdir, files in [(directory, os.listdir(directory))]:\n        for file_name in files:\n", "R1-order-taint")
B("C09", "module-level memo of a decoder", D + "chr.py", "@decoder\ndef find_chr(data: bytes) -> list[Node]:\n    \"\"\"Find and decode calls to the chr function\"\"\"\n    out = []\n", "_CACHE: dict = {}\n\n\n@decoder\ndef find_chr(data: bytes) -> list[Node]:\n    \"\"\"Find and decode calls to the chr function\"\"\"\n    if data in _CACHE:\n        return _CACHE[data]\n    out = []\n    _CACHE[data] = out\n", "R3-shared-writes")
B("C09", "self.last_result in scan_node", MD, "        stack: list[Node] = []\n", "        stack: list[Node] = []\n        self.last_scanned = node\n", "R3-shared-writes")
B("C09", "lru_cache on a node-building decoder helper", D + "network.py", "def parse_ip(ip: bytes) -> Node:", "@functools.lru_cache(maxsize=None)\ndef parse_ip(ip: bytes) -> Node:", "R3-shared-writes", also=[dict(file=D + "network.py", old="import binascii\n", new="import binascii\nimport functools\n")])
B("C09", "random tie-break", MD, "        for hit in results:\n", "        random.shuffle(results)\n        for hit in results:\n", "R4-entropy", also=[dict(file=MD, old="from multidecoder.node import Node\n", new="import random\n\nfrom multidecoder.node import Node\n")])
B("C09", "id() in sort key", MD, "key=lambda t: (t.start, -t.end),", "key=lambda t: (t.start, -t.end, id(t)),", "R")
B("C09", "stack hoisted to self", MD, "        stack: list[Node] = []\n", "        self.stack = stack = []\n", "R3-shared-writes")
B("C09", "xortool keys through a set", XT, "    probable_keys = []\n", "    probable_keys = set()\n", "R1-order-taint", also=[dict(file=XT, old="            if key not in probable_keys:\n                probable_keys.append(key)\n\n    return probable_keys, key_char_used", new="            probable_keys.add(key)\n\n    return list(probable_keys), key_char_used")])
B("C09", "domain false-positive roots iterated", NET, "        or (tld in tld_fpos and (root in root_fpos or len(root) == 1))  # variable attribute\n", "        or (tld in tld_fpos and (root == [r for r in root_fpos if r.startswith(root)][:1] or len(root) == 1))\n", "R1-order-taint")
B("C09", "mutable default accumulates hits", D + "vba.py", "def find_createobject(data: bytes) -> list[Node]:\n    out = []\n", "def find_createobject(data: bytes, out: list = []) -> list[Node]:\n", "R3-shared-writes")
N("C09", "sorted set literal", REG, "partial(find_keywords, file_name, sorted(keywords))", "partial(find_keywords, file_name, sorted(set(keywords)))")
N("C09", "local dict for membership", D + "network.py", "    out = []\n    for match in re.finditer(IP_RE, data):\n", "    out = []\n    seen = set()\n    for match in re.finditer(IP_RE, data):\n        seen.add(match.start())\n")
N("C09", "len(set()) heuristic", D + "base64.py", "len(set(b64_string)) <= MIN_B64_CHARS", "len({c for c in b64_string}) <= MIN_B64_CHARS")
B("C18", "get_keywords memoised", REG, "def get_keywords(directory: str = \"\") -> Registry:", "@lru_cache(maxsize=None)\ndef get_keywords(directory: str = \"\") -> Registry:", "R5-config", also=[dict(file=REG, old="from functools import partial", new="from functools import lru_cache, partial")])
B("C09", "get_keywords memoised", REG, "def get_keywords(directory: str = \"\") -> Registry:", "@lru_cache(maxsize=None)\ndef get_keywords(directory: str = \"\") -> Registry:", "R3-shared-writes", also=[dict(file=REG, old="from functools import partial", new="from functools import lru_cache, partial")])

# ------------------------------------------------------------------ C13
B64 = D + "base64.py"
HEXF = D + "hex.py"
XH = "src/multidecoder/xor_helper.py"
B("C13", "group(1) for group(2) in FromBase64String", B64, "b64 = binascii.a2b_base64(match.group(2))", "b64 = binascii.a2b_base64(match.group(1))", "R")
B("C13", "span from group 2", B64, 'b64_node = Node(POWERSHELL_BYTES_TYPE, b64, "encoding.base64", *match.span())', 'b64_node = Node(POWERSHELL_BYTES_TYPE, b64, "encoding.base64", *match.span(2))', "R1-provenance")
B("C13", "MIN_B64_CHARS = 5", B64, "MIN_B64_CHARS = 6", "MIN_B64_CHARS = 5", "R3-acceptance")
B("C13", "% 4 -> % 2", B64, "if len(b64_string) % 4 != 0 or", "if len(b64_string) % 2 != 0 or", "R3-acceptance")
B("C13", "BASE64_RE {5,} -> {4,}", B64, "\\r?\\n?){5,}[A-Za-z0-9+/]{2,}=?=?", "\\r?\\n?){4,}[A-Za-z0-9+/]{2,}=?=?", "R3-acceptance")
B("C13", "HEX_RE loses the upper-case branch", HEXF, 'HEX_RE = rb"((?=[0-9]*[a-f])(?:[a-f0-9]{2}){10,}|(?:[A-F0-9]{2}){10,})"', 'HEX_RE = rb"((?:[a-f0-9]{2}){10,})"', "R3-acceptance")
B("C13", "HEX_RE admits odd lengths", HEXF, 'HEX_RE = rb"((?=[0-9]*[a-f])(?:[a-f0-9]{2}){10,}|(?:[A-F0-9]{2}){10,})"', 'HEX_RE = rb"((?=[0-9]*[a-f])[a-f0-9]{20,}|(?:[A-F0-9]{2}){10,})"', "R")
B("C13", "xor -> and", XH, "data = bytes(b ^ xorkey for b in data)", "data = bytes(b & xorkey for b in data)", "R4-xor")
B("C13", "label from a different key", XH, '"cipher.xor" + str(xorkey),', '"cipher.xor" + str(xorkey & 0xFF),', "R4-xor")
B("C13", "xor child span off by one", XH, "            end=len(data),\n", "            end=len(data) - 1,\n", "R4-xor")
B("C13", "base64 strips spaces too", B64, '            .replace(b"<\\x00  \\x00", b"")\n', '            .replace(b"<\\x00  \\x00", b"")\n            .replace(b"/", b"")\n', "R1-provenance")
B("C13", "atob label wrong", B64, 'out.append(Node("javascript.string", b64, "encoding.base64", *match.span()))', 'out.append(Node("javascript.string", b64, "encoding.hexidecimal", *match.span()))', "R1-provenance")
B("C13", "ATOB_RE requires double quotes", B64, "ATOB_RE = rb\"atob\\(['\\\"]([A-Za-z0-9+/]+=?=?)['\\\"]\\)\"", "ATOB_RE = rb\"atob\\([\\\"]([A-Za-z0-9+/]+=?=?)[\\\"]\\)\"", "R3-acceptance")
B("C13", "hex decodes lower-cased slice", HEXF, 'Node("", unhexlify(match.group(0)), "decoded.hexadecimal", *match.span(0))', 'Node("", unhexlify(match.group(0)[2:]), "decoded.hexadecimal", *match.span(0))', "R1-provenance")
B("C13", "slash rule 3/32 -> 3/16", B64, "> 3 / 32:", "> 3 / 16:", "R3-acceptance")
B("C13", "xor applied to a different buffer", B64, "b64_node = apply_xor_key(xorkey, b64, b64_node, POWERSHELL_BYTES_TYPE)", "b64_node = apply_xor_key(xorkey, match.group(2), b64_node, POWERSHELL_BYTES_TYPE)", "R4-xor")
B("C13", "raw match decoded (seed s27)", B64, "b64_result = binascii.a2b_base64(b64_string)", "b64_result = binascii.a2b_base64(b64_match.group())", "R1-provenance")
B("C13", "HTML escapes not removed before the rules", B64, '            re.sub(HTML_ESCAPE_RE, b"", b64_match.group())\n', '            b64_match.group()\n', "R")
B("C13", "HTML_ESCAPE_RE loses the decimal form", B64, 'HTML_ESCAPE_RE = rb"&#(?:x[a-fA-F0-9]{1,4}|\\d{1,4});"', 'HTML_ESCAPE_RE = rb"&#(?:x[a-fA-F0-9]{1,4});"', "R")
N("C13", "decoded text is the raw match minus escapes (a2b skips the breaks)", B64, "b64_result = binascii.a2b_base64(b64_string)", 'b64_result = binascii.a2b_base64(re.sub(HTML_ESCAPE_RE, b"", b64_match.group()))')
N("C13", "threshold written as < 7", B64, "len(set(b64_string)) <= MIN_B64_CHARS", "len(set(b64_string)) < MIN_B64_CHARS + 1")
N("C13", "regex equal-language rewrite", HEXF, 'HEX_RE = rb"((?=[0-9]*[a-f])(?:[a-f0-9]{2}){10,}|(?:[A-F0-9]{2}){10,})"', 'HEX_RE = rb"((?=[0-9]*[a-f])(?:[0-9a-f][0-9a-f]){10,}|(?:[0-9A-F]{2}){10,})"')
N("C13", "xor operands swapped", XH, "data = bytes(b ^ xorkey for b in data)", "data = bytes(xorkey ^ b for b in data)")
N("C13", "guards split", B64, "        if len(b64_string) % 4 != 0 or len(set(b64_string)) <= MIN_B64_CHARS:\n            continue\n", "        if len(b64_string) % 4 != 0:\n            continue\n        if len(set(b64_string)) <= MIN_B64_CHARS:\n            continue\n")

# ------------------------------------------------------------------ C14
XMLF = D + "xml.py"
CHRF = D + "chr.py"
JSF = D + "javascript.py"
CODF = D + "codec.py"
B("C14", "{5,} -> {3,}", XMLF, "[0-1]?[0-9]{1,2}));){5,}", "[0-1]?[0-9]{1,2}));){3,}", "R1-xml")
B("C14", "decimal alt -> \\d{1,3}", XMLF, "(?:25[0-5]|2[0-4][0-9]|[0-1]?[0-9]{1,2})", "(?:\\d{1,3})", "R1-xml")
B("C14", "hex alt admits non-hex again", XMLF, "x[a-f0-9]{2}", "x[a-z0-9]{2}", "R1-xml")
B("C14", "hex alt one or two digits", XMLF, "x[a-f0-9]{2}", "x[a-f0-9]{1,2}", "R1-xml")
B("C14", "chr handler appends anyway", CHRF, "        except (ValueError, UnicodeEncodeError):\n            continue\n", "        except (ValueError, UnicodeEncodeError):\n            character = b\"?\"\n", "R4-chr")
B("C14", "chr encodes with surrogatepass", CHRF, "character = chr(int(match.group(1))).encode()", "character = chr(int(match.group(1)) % 256).encode()", "R3-provenance")
B("C14", "chr encodes lone surrogates instead of skipping them (seed u08)", CHRF, "character = chr(int(match.group(1))).encode()", 'character = chr(int(match.group(1))).encode("utf-8", "surrogatepass")', "R3-provenance")
B("C14", "chr encodes with a replacing error handler", CHRF, "character = chr(int(match.group(1))).encode()", 'character = chr(int(match.group(1))).encode(errors="replace")', "R3-provenance")
B("C14", "utf-16 text re-encoded as latin-1", CODF, 'match.group().decode("utf-16").encode("utf-8"),', 'match.group().decode("utf-16").encode("latin-1"),', "R3-provenance")
N("C14", "chr names the default codec", CHRF, "character = chr(int(match.group(1))).encode()", 'character = chr(int(match.group(1))).encode("utf-8")')
N("C14", "utf-16 text encoded with the default codec", CODF, 'match.group().decode("utf-16").encode("utf-8"),', 'match.group().decode("utf-16").encode(),')
B("C14", "unescape decodes the whole match", JSF, "unquote_to_bytes(match.group(1)),", "unquote_to_bytes(match.group()),", "R3-provenance")
B("C14", "UTF-16 class admits NUL first byte", CODF, 'rb"(?s)(?:[^\\x00-\\x08\\x0e-\\x1f\\x7f-\\x9f]\\x00){7,}"', 'rb"(?s)(?:[^\\x01-\\x08\\x0e-\\x1f\\x7f-\\x9f]\\x00){7,}"', "R6-utf16")
B("C14", "UTF-16 threshold 5", CODF, 'rb"(?s)(?:[^\\x00-\\x08\\x0e-\\x1f\\x7f-\\x9f]\\x00){7,}"', 'rb"(?s)(?:[^\\x00-\\x08\\x0e-\\x1f\\x7f-\\x9f]\\x00){5,}"', "R6-utf16")
B("C14", "span from group 1", CHRF, 'out.append(Node("string", character, "function.chr", *match.span()))', 'out.append(Node("string", character, "function.chr", *match.span(1)))', "R3-provenance")
B("C14", "utf-16 decoded with errors=ignore", CODF, 'match.group().decode("utf-16").encode("utf-8"),', 'match.group().decode("utf-16", "ignore").encode("utf-8"),', "R3-provenance")
B("C14", "xml split keeps the last empty token", XMLF, '.split(b";")[:-1]', '.split(b";")', "R2-xml-tokens")
B("C14", "xml hex branch keeps the x", XMLF, "int(x[1:], base=16)", "int(x[2:], base=16)", "R2-xml-tokens")
B("C14", "xml tokeniser case-sensitive while the pattern is not", XMLF, 'if x.startswith((b"x", b"X"))', 'if x.startswith(b"x")', "R2-xml-tokens")
B("C14", "unescape label typo", JSF, '"function.unescape",', '"function.escape",', "R3-provenance")
N("C14", "regex equal-language rewrite", XMLF, "x[a-f0-9]{2}", "x[0-9a-f][0-9a-f]")
N("C14", "chr handler catches the superclass only", CHRF, "except (ValueError, UnicodeEncodeError):", "except ValueError:")
N("C14", "explicit span", CHRF, 'out.append(Node("string", character, "function.chr", *match.span()))', 'out.append(Node("string", character, "function.chr", match.start(), match.end()))')

# ------------------------------------------------------------------ C15
REPL = D + "replace.py"
REV = D + "reverse.py"
VBA = D + "vba.py"
CONC = D + "concat.py"
HIT = "src/multidecoder/hit.py"
B("C15", "[1:-1] -> [1:] on the subject", REPL, '            match.group(1)[1:-1].replace(match.group(2)[1:-1], match.group(3)[1:-1]),\n            "replace",\n            *match.span(),\n        )\n        for match in re.finditer(REPLACE_RE, data)', '            match.group(1)[1:].replace(match.group(2)[1:-1], match.group(3)[1:-1]),\n            "replace",\n            *match.span(),\n        )\n        for match in re.finditer(REPLACE_RE, data)', "R1-evaluation")
B("C15", "[-2:0:-1] -> [::-1]", REV, 'lambda s: (s[-2:0:-1], "reverse")', 'lambda s: (s[::-1], "reverse")', "R1-evaluation")
B("C15", "vba reverse keeps the first character", VBA, 'lambda s: (s[-2:0:-1], "vba.reverse")', 'lambda s: (s[-2::-1], "vba.reverse")', "R1-evaluation")
B("C15", "replace operands swapped", REPL, '            match.group(1)[1:-1].replace(match.group(2)[1:-1], match.group(3)[1:-1]),\n            "vba.replace",', '            match.group(1)[1:-1].replace(match.group(3)[1:-1], match.group(2)[1:-1]),\n            "vba.replace",', "R1-evaluation")
B("C15", "deob_group=0 for reverse", REV, 'lambda s: (s[-2:0:-1], "reverse"), 1)', 'lambda s: (s[-2:0:-1], "reverse"), 0)', "R1-evaluation")
B("C15", "find_and_deobfuscate spans the deob group", HIT, "*match.span(context_group))", "*match.span(deob_group))", "R4-span-labels")
B("C15", "concat spacer differs from the chain's", CONC, 're.sub(rb"[\'\\"]" + CONCAT_SPACER_RE + rb"[\'\\"]", b"", match.group())[1:-1],', 're.sub(rb"[\'\\"]\\s*(?:&|\\+)\\s*[\'\\"]", b"", match.group())[1:-1],', "R1-evaluation")
B("C15", "concat spacer loses &amp;", CONC, 'CONCAT_SPACER_RE = rb"[\\s_]*(?:&|\\+|&amp;)[\\s_]*"', 'CONCAT_SPACER_RE = rb"[\\s_]*(?:&|\\+)[\\s_]*"', "R3-concat")
B("C15", "js replace keeps the pattern quoted-style slice", REPL, "match.group(1)[1:-1].replace(match.group(2), match.group(3)[1:-1]),", "match.group(1)[1:-1].replace(match.group(2)[1:-1], match.group(3)[1:-1]),", "R1-evaluation")
B("C15", "powershell replace type not a string type", REPL, '"powershell.string",', '"powershell.expression",', "R4-span-labels")
B("C15", "concat possessive repeat", CONC, 'CONCAT_RE = rb"(?:" + STRING_RE + CONCAT_SPACER_RE + rb")+" + STRING_RE', 'CONCAT_RE = rb"(?:" + STRING_RE + CONCAT_SPACER_RE + rb")++" + STRING_RE', "R3-concat")
B("C15", "replace pattern loses whitespace tolerance", REPL, 'REPLACE_RE = rb"(?i)(" + STRING_RE + rb")\\.replace\\(\\s*(" + STRING_RE + rb")\\s*,\\s*(" + STRING_RE + rb")\\s*\\)"', 'REPLACE_RE = rb"(?i)(" + STRING_RE + rb")\\.replace\\((" + STRING_RE + rb"),(" + STRING_RE + rb")\\)"', "R2-group-roles")
B("C15", "span of replace from group 1", REPL, '            "vba.replace",\n            *match.span(),', '            "vba.replace",\n            *match.span(1),', "R4-span-labels")
N("C15", "slices via a named helper", REPL, '            match.group(1)[1:-1].replace(match.group(2)[1:-1], match.group(3)[1:-1]),\n            "vba.replace",', '            unquote(match.group(1)).replace(unquote(match.group(2)), unquote(match.group(3))),\n            "vba.replace",', also=[dict(file=REPL, old="@decoder\ndef find_replace(", new="def unquote(s: bytes) -> bytes:\n    return s[1:-1]\n\n\n@decoder\ndef find_replace(")])
N("C15", "explicit span in concat", CONC, "            match.start(),\n            match.end(),\n", "            *match.span(),\n")

# ------------------------------------------------------------------ C10
PATHF = D + "path.py"
B("C10", "is_domain check dropped in find_domains", NET, "        if not is_domain(domain) or len(domain) < 7:\n", "        if len(domain) < 7:\n", "R1-validator-dominance")
B("C10", "min length 7 dropped", NET, "        if not is_domain(domain) or len(domain) < 7:\n", "        if not is_domain(domain):\n", "R1-validator-dominance")
B("C10", "email validates group 0", NET, "if is_domain(match.group(1))]", "if is_domain(match.group())]", "R1-validator-dominance")
B("C10", "UNC host validated on a different value", PATHF, "                if is_domain(hostname):\n                    children.append(Node(\"network.domain\", hostname, \"\", 2, 2 + len(hostname)))", "                if is_domain(segments[2]):\n                    children.append(Node(\"network.domain\", hostname, \"\", 2, 2 + len(hostname)))", "R1-validator-dominance")
B("C10", "is_ip check removed", NET, "        if not is_ip(ip):\n            continue\n", "", "R1-validator-dominance")
B("C10", "url not validated", NET, "        if not is_url(url):\n            continue\n", "", "R1-validator-dominance")
B("C10", "DOMAIN_RE label class gains _", NET, '(?:[a-z0-9-]+\\.)+(?:xn--', '(?:[a-z0-9_-]+\\.)+(?:xn--', "R3-alphabets")
B("C10", "ftp -> file in is_url", NET, 'split.scheme in (b"http", b"https", b"ftp"))', 'split.scheme in (b"http", b"https", b"file"))', "R2-validators")
B("C10", "is_url accepts any netloc", NET, "return bool(split.scheme and split.hostname and split.scheme in", "return bool(split.scheme and split.netloc and split.scheme in", "R2-validators")
B("C10", "~ dropped from the unreserved test", NET, 'byte in (b"-", b".", b"_", b"~"):', 'byte in (b"-", b".", b"_"):', "R4-percent")
B("C10", "unreserved test admits /", NET, 'byte in (b"-", b".", b"_", b"~"):', 'byte in (b"-", b".", b"_", b"~", b"/"):', "R4-percent")
B("C10", "percent label guard <=", NET, '"escape.percent" if len(normalized) < len(uri) else ""', '"escape.percent" if len(normalized) <= len(uri) else ""', "R4-percent")
B("C10", "reserved escapes lower-cased", NET, "        return match.group(0).upper()\n", "        return match.group(0).lower()\n", "R4-percent")
B("C10", "ip label guard inverted", NET, "        IP_OBF if compressed != ip else \"\",\n", "        IP_OBF if compressed == ip else \"\",\n", "R5-ip-label")
B("C10", "ip value is the raw text", NET, "        IP_TYPE,\n        compressed,\n", "        IP_TYPE,\n        ip,\n", "R1-validator-dominance")
B("C10", "is_domain does not upper-case the tld", NET, "return bool(name and tld.upper() in TOP_LEVEL_DOMAINS)", "return bool(name and tld in TOP_LEVEL_DOMAINS)", "R2-validators")
B("C10", "is_domain accepts an empty name", NET, "return bool(name and tld.upper() in TOP_LEVEL_DOMAINS)", "return bool(tld.upper() in TOP_LEVEL_DOMAINS)", "R2-validators")
B("C10", "network.ip built outside parse_ip", PATHF, "                    if is_domain(hostname):\n                        children.append(Node(\"network.domain\", hostname, \"\", 8, 8 + len(hostname)))", "                    children.append(Node(\"network.ip\", hostname, \"\", 8, 8 + len(hostname)))", "R1-validator-dominance")
N("C10", "validator result bound to a variable first", NET, "        if not is_domain(domain) or len(domain) < 7:\n            continue\n", "        valid = is_domain(domain)\n        if not valid or len(domain) < 7:\n            continue\n")
N("C10", "unreserved test rewritten with in", NET, 'byte in (b"-", b".", b"_", b"~"):', 'byte in b"-._~":')
N("C10", "length test flipped", NET, "        if not is_domain(domain) or len(domain) < 7:\n", "        if 7 > len(domain) or not is_domain(domain):\n")

# ------------------------------------------------------------------ C11
FN = D + "filename.py"
B("C11", "TLD {2,18} -> {2,10}", NET, "[a-z]{2,18})(?![a-z1-9.(=_-])", "[a-z]{2,10})(?![a-z1-9.(=_-])", "R1-containment")
B("C11", "octet \\d{1,3} -> \\d{2,3}", NET, '_OCTET_RE = rb"(?:0x0*[a-f0-9]{1,2}|0*\\d{1,3})"', '_OCTET_RE = rb"(?:0x0*[a-f0-9]{1,2}|0*\\d{2,3})"', "R1-containment")
B("C11", "look-behind gains a space", NET, 'DOMAIN_RE = rb"(?i)(?<![-\\w.\\\\_])', 'DOMAIN_RE = rb"(?i)(?<![-\\w.\\\\_ ])', "R3-anchors")
B("C11", "URL_RE drops ftp", NET, 'rb"(?i)(?:ftp|https?)://"  # scheme', 'rb"(?i)(?:https?)://"  # scheme', "R1-containment")
B("C11", "extra content filter in find_domains", NET, "        if domain_is_false_positive(domain):\n            continue\n", "        if domain_is_false_positive(domain):\n            continue\n        if b\"test\" in domain:\n            continue\n", "R5-filters")
B("C11", "find_library label swapped back", FN, "return regex_hits(LIBRARY_TYPE, LIBRARY_RE, data)", "return regex_hits(EXECUTABLE_TYPE, LIBRARY_RE, data)", "R6-labels")
B("C11", "version filter loses its guard", NET, "        if offset >= 0 and re.match(rb'[\\x00=\\s\"]+$', data[offset + 6 : start]):", "        if re.match(rb'[\\x00=\\s\"]+$', data[offset + 6 : start]):", "R5-filters")
B("C11", "broadcast filter widened", NET, 'if ip.endswith((b".0", b".255")):', 'if ip.endswith((b".0", b".255", b".1")):', "R5-filters")
B("C11", "domain hit from group 1 span", NET, "        out.append(match_to_hit(DOMAIN_TYPE, match))\n", "        out.append(Node(DOMAIN_TYPE, match.group(), \"\", match.start(), match.end() - 1))\n", "R4-exact-span")
N("C11", "possessive on the outermost trailing optional group (nothing follows it)", NET, "[\\w!#-&(*+\\-/:=@?~])?)?", "[\\w!#-&(*+\\-/:=@?~])?)?+")
B("C11", "possessive star before a class it overlaps", NET, "(?:[\\w!#-/:;=@?~]*[\\w!#-&(*+\\-/:=@?~])?)?", "(?:[\\w!#-/:;=@?~]*+[\\w!#-&(*+\\-/:=@?~])?)?", "R1-containment")
B("C11", "EXECUTABLE_RE requires a lower-case extension", FN, 'EXECUTABLE_RE = rb"(?i)\\b\\w+[.]exe\\b"', 'EXECUTABLE_RE = rb"\\b\\w+[.]exe\\b"', "R1-containment")
B("C11", "email local part needs 5 chars", NET, 'EMAIL_RE = rb"(?i)\\b[a-z0-9._%+-]{3,}@("', 'EMAIL_RE = rb"(?i)\\b[a-z0-9._%+-]{5,}@("', "R1-containment")
B("C11", "closing-brace scan starts at balance 0", D + "vba.py", "    balance = 1\n", "    balance = 0\n", "R7-createobject")
B("C11", "closing-brace scan returns index of the paren", D + "vba.py", "    if balance == 0:\n        return index\n", "    if balance == 0:\n        return index - 1\n", "R7-createobject")
B("C11", "IP trail assertion vetoes quotes", NET, '+ _OCTET_RE + rb"(?![\\w.-])"', '+ _OCTET_RE + rb"(?![\\w.\\"-])"', "R3-anchors")
N("C11", "equal-language regex rewrite", NET, '_OCTET_RE = rb"(?:0x0*[a-f0-9]{1,2}|0*\\d{1,3})"', '_OCTET_RE = rb"(?:0x0*[0-9a-f][0-9a-f]?|0*[0-9]{1,3})"')
N("C11", "filters merged", NET, "        if not is_domain(domain) or len(domain) < 7:\n            continue\n        if domain_is_false_positive(domain):\n            continue\n", "        if not is_domain(domain) or len(domain) < 7:\n            continue\n        fp = domain_is_false_positive(domain)\n        if fp:\n            continue\n")

# ------------------------------------------------------------------ C16
SH = D + "shell.py"
B("C16", "break removed after truncation", SH, "                end = start + i\n                break\n", "                end = start + i\n", "R")
B("C16", "end = len(data) - start copied into the quoted branch", SH, "                if end < 0:\n                    # The string or FOR loop is never closed, assume it runs to the end of the data\n                    end = len(data)\n", "                if end < 0:\n                    end = len(data) - start\n", "R1-coherence")
B("C16", "caret label guard inverted", SH, '"unescape.shell.carets" if stripped != cmd else ""', '"unescape.shell.carets" if stripped == cmd else ""', "R2-label")
B("C16", "ENC_RE loses the ec alias", SH, 'rb"e\\^?(?:c|n\\^?(?:c', 'rb"e\\^?(?:n\\^?(?:c', "R3-enc-switch")
B("C16", "slash rewrite after the split", SH, "            pwsh_invocation = b\" -\".join(pwsh_invocation.split(b\"/\"))  # Replace cmd style args with powershell style\n            args = pwsh_invocation.split()\n", "            args = pwsh_invocation.split()\n            pwsh_invocation = b\" -\".join(pwsh_invocation.split(b\"/\"))  # Replace cmd style args with powershell style\n", "R4-encoded")
B("C16", "decoded as utf-8", SH, '.decode("utf-16", errors="ignore").encode()', '.decode("utf-8", errors="ignore").encode()', "R4-encoded")
B("C16", "continuation keeps processing the next char", SH, "                if i >= len(cmd):\n                    break  # The line continuation is the last thing in the command\n", "                if i >= len(cmd):\n                    break  # The line continuation is the last thing in the command\n                continue\n", "R6-caret-machine")
B("C16", "CR does not end a quoted region", SH, "            in_string = False  # Line breaks automatically end strings\n", "            pass\n", "R6-caret-machine")
B("C16", "caret literal inside quotes dropped", SH, 'elif character == ord("^") and not in_string:', 'elif character == ord("^"):', "R6-caret-machine")
B("C16", "line continuation skips only CR", SH, "                i += 2  # skip \\r\\n\n", "                i += 1  # skip \\r\n", "R6-caret-machine")
B("C16", "trailing caret kept", SH, 'if i < len(cmd) and (cmd[i] != ord("^") or in_string):', "if i < len(cmd):", "R6-caret-machine")
B("C16", "paren scan counts brackets too", SH, '            if char == ord(b")"):\n', '            if char == ord(b")") or char == ord(b"]"):\n', "R7-delimiting")
B("C16", "paren scan truncates at <= 0", SH, "            if parens < 0:\n", "            if parens <= 0 and i:\n", "R7-delimiting")
B("C16", "CMD_RE tail admits NUL", SH, '\\bc\\^?m\\^?d\\b)[^\\x00]*\'', '\\bc\\^?m\\^?d\\b)(?s:.)*\'', "R7-delimiting")
N("C16", "loop bound rewritten", SH, "    while i < len(cmd) - 1:\n", "    while i + 1 < len(cmd):\n")
N("C16", "character temp removed", SH, '        character = cmd[i]\n        if character == ord(\'"\'):', '        character = cmd[i + 0]\n        if character == ord(\'"\'):')
N("C16", "find result clamped with if/else", SH, "                if end < 0:\n                    # The string or FOR loop is never closed, assume it runs to the end of the data\n                    end = len(data)\n", "                end = len(data) if end < 0 else end\n")

# ------------------------------------------------------------------ C12
B("C12", "parse_url(group) re-introduced", NET, "children=parse_url(url)))", "children=parse_url(group)))", "R1-same-text")
B("C12", "scheme separator not counted", NET, "        offset += len(url.scheme) + 1  # scheme + :\n", "        offset += len(url.scheme)  # scheme\n", "R2-layout")
B("C12", "authority separator counted as 3", NET, "        offset += 2  # authority begins with //\n", "        offset += 3  # authority begins with //\n", "R2-layout")
B("C12", "query span from len(url.path)", NET, "                end=(offset := offset + len(url.query)),\n", "                end=(offset := offset + len(url.path)),\n", "R2-layout")
B("C12", "fragment offset counted from the query again", NET, "        offset = len(url_text) - len(url.fragment)\n", "        offset += 1  # fragment starts with #\n", "R2-layout")
B("C12", "host offset from accumulated parts", NET, "    offset = len(authority) - len(address)\n", "    if userinfo:\n        offset += 1  # for the @\n", "R2-layout")
B("C12", "host offset from the first @", NET, "    offset = len(authority) - len(address)\n", "    offset = authority.find(b\"@\") + 1\n", "R2-layout")
B("C12", "password offset without the colon", NET, "        offset += 1  # for the :\n", "", "R2-layout")
B("C12", "MixedCase guard drops the upper-case case", NET, "if url_text[0 : len(url.scheme)] not in (url.scheme, url.scheme.upper())", "if url_text[0 : len(url.scheme)] not in (url.scheme,)", "R4-labels")
B("C12", "dotpath label guard <=", NET, '"url.dotpath" if len(dotless) < len(segments) else ""', '"url.dotpath" if len(dotless) <= len(segments) else ""', "R4-labels")
B("C12", "root popped again", NET, 'if dotless and dotless != [b""]:', "if dotless:", "R4-labels")
B("C12", "filename child from the raw length", PATHF, "children.append(Node(type_, filename, \"\", len(path) - len(filename), len(path)))", "children.append(Node(type_, filename, \"\", length - len(filename), length))", "R5-windows")
B("C12", "device prefix without the backslash", PATHF, 'if path.startswith((b"\\\\\\\\.\\\\", b"\\\\\\\\?\\\\")):', 'if path.startswith((b"\\\\\\\\.", b"\\\\\\\\?")):', "R5-windows")
B("C12", "UNC host offset 3", PATHF, "children.append(parse_ip(hostname).shift(2))", "children.append(parse_ip(hostname).shift(3))", "R5-windows")
B("C12", "query value from the fragment", NET, "                unquote_to_bytes(url.query),\n", "                unquote_to_bytes(url.fragment),\n", "R3-provenance")
B("C12", "domain child sized by decoded host", NET, 'out.append(Node("network.domain", host, "", offset, offset + host_length))', 'out.append(Node("network.domain", host, "", offset, offset + len(host)))', "R2-layout")
N("C12", "offsets via explicit variables", NET, "        offset += len(url.scheme) + 1  # scheme + :\n", "        scheme_len = len(url.scheme)\n        offset += scheme_len + 1  # scheme + :\n")
N("C12", "start/end keywords vs positionals", NET, "                start=offset,\n                end=(offset := offset + len(url.query)),\n", "                \"\",\n                offset,\n                (offset := offset + len(url.query)),\n")

# ------------------------------------------------------------------ C01
PEF = D + "pe_file.py"
PSF = D + "powershell.py"
B("C01", "find_atob handler catches the wrong class", B64, "            out.append(Node(\"javascript.string\", b64, \"encoding.base64\", *match.span()))\n        except binascii.Error:", "            out.append(Node(\"javascript.string\", b64, \"encoding.base64\", *match.span()))\n        except KeyError:", "R1-exception-escape")
B("C01", "single-byte key guard removed", XH, "    if not 0 <= xorkey <= 255:\n        return node  # Not a single byte key, xoring with it would not give bytes\n", "", "R1-exception-escape")
B("C01", "XML hex alternative admits non-hex", XMLF, "x[a-f0-9]{2}", "x[a-z0-9]{2}", "R1-exception-escape")
B("C01", "empty keyword guard removed", KW, "    if not keyword:\n        return []\n", "", "R2-termination")
B("C01", "index += 1 only when nothing matched", D + "vba.py", "        elif data[index] == brace_ord:\n            balance += 1\n        index += 1\n", "        elif data[index] == brace_ord:\n            balance += 1\n        else:\n            index += 1\n", "R2-termination")
B("C01", "PE header length guard removed", PEF, "        if len_data < e_elfanew_location + E_ELFANEW_SIZE:\n            continue\n", "", "R1-exception-escape")
B("C01", "utf-16 errors=ignore removed in shell", SH, '.decode("utf-16", errors="ignore").encode()', '.decode("utf-16").encode()', "R1-exception-escape")
B("C01", "is_ip check removed", NET, "        if not is_ip(ip):\n            continue\n", "", "R1-exception-escape")
B("C01", "recursion without decrement", MD, "self.scan_node(hit, depth_limit - 1)", "self.scan_node(hit, depth_limit)", "R2-termination")
B("C01", "continuation end guard removed", SH, "                if i >= len(cmd):\n                    break  # The line continuation is the last thing in the command\n", "", "R1-exception-escape")
B("C01", "two-part guard removed", SH, "            if len(parts) != 2:\n                continue  # A line continuation joined the switch to its argument, nothing to split off\n", "", "R1-exception-escape")
B("C01", "PE end not clamped", PEF, "end = min(mz_offset + size, len_data)", "end = mz_offset + size", "R2-termination")
B("C01", "url not validated before parsing", NET, "        if not is_url(url):\n            continue\n", "", "R1-exception-escape")
B("C01", "powershell bytes handler removed", PSF, "        try:\n            binary = bytes(decode_byte(byte) for byte in match.group().split(b\",\"))\n        except ValueError:\n            continue  # byte not in 0-256\n", "        binary = bytes(decode_byte(byte) for byte in match.group().split(b\",\"))\n", "R1-exception-escape")
B("C01", "is_ip no longer catches UnicodeDecodeError", NET, "    except (AddressValueError, UnicodeDecodeError):\n        return False\n    return True", "    except AddressValueError:\n        return False\n    return True", "R1-exception-escape")
B("C01", "find_urls reads data[start + len]", NET, "        prev = data[start - 1]\n", "        prev = data[end]\n", "R1-exception-escape")
B("C01", "strip_carets loops to the last byte", SH, "    while i < len(cmd) - 1:\n", "    while i < len(cmd):\n", "R1-exception-escape")
B("C01", "get_xorkey uses an unchecked search", XH, "    xorkey = re.search(XOR_RE, data)\n    if xorkey:\n        return int(xorkey.group(1))\n    return None", "    xorkey = re.search(XOR_RE, data)\n    return int(xorkey.group(1))", "R1-exception-escape")
B("C01", "keyword search stops advancing", KW, "        start = data.find(keyword, start + len(keyword))\n", "        start = data.find(keyword, start)\n", "R2-termination")
N("C01", "superclass handler", B64, "        except binascii.Error:\n            continue\n    return out\n\n\n@decoder\ndef find_base64", "        except ValueError:\n            continue\n    return out\n\n\n@decoder\ndef find_base64")
N("C01", "chr handler without the subclass", CHRF, "except (ValueError, UnicodeEncodeError):", "except ValueError:")
N("C01", "regex rewritten with [0-9]", XH, 'XOR_RE = rb"(?i)-b?xor\\s*(\\d{1,3})"', 'XOR_RE = rb"(?i)-b?xor\\s*([0-9]{1,3})"')
N("C01", "loop bound rewritten", SH, "    while i < len(cmd) - 1:\n", "    while i <= len(cmd) - 2:\n")

# ------------------------------------------------------------------ C08
B("C08", "stack hoisted to self", MD, "        stack: list[Node] = []\n", "        self.stack = stack = self.__dict__.setdefault(\"stack\", [])\n", "R1-fresh-recursive-scan")
B("C08", "mutable default stack", MD, "    def scan_node(self, node: Node, depth_limit: int = DEFAULT_DEPTH_LIMIT) -> Node:", "    def scan_node(self, node: Node, depth_limit: int = DEFAULT_DEPTH_LIMIT, stack: list = []) -> Node:", "R1-fresh-recursive-scan", also=[dict(file=MD, old="        stack: list[Node] = []\n", new="")])
B("C08", "recursive call on the parent", MD, "self.scan_node(hit, depth_limit - 1)", "self.scan_node(hit.parent, depth_limit - 1)", "R1-fresh-recursive-scan")
B("C08", "decoders called with node.original", MD, "for hit in search(node.value) if hit.value", "for hit in search(node.original) if hit.value", "R3-value-only")
B("C08", "decoded test compares lengths", MD, "if hit.value.lower() != hit.original.lower() or hit.children:", "if len(hit.value) != len(hit.original) or hit.children:", "R1-fresh-recursive-scan")
B("C08", "offset starts at the node's own start", MD, "        offset = 0  # start of the current node relative to the start of the original node\n", "        offset = node.start\n", "R")
B("C08", "skip short decoded values near the start", MD, "            hit.parent = node\n", "            if node.start < 4 and len(hit.value) < 2:\n                continue\n            hit.parent = node\n", "R2-read-set")
B("C08", "decoder keeps a module-level memo", D + "hex.py", "    return [\n        Node(\"\", unhexlify(match.group(0)), \"decoded.hexadecimal\", *match.span(0))\n        for match in re.finditer(HEX_RE, data)\n    ]", "    if data in _SEEN:\n        return []\n    _SEEN.add(data)\n    return [\n        Node(\"\", unhexlify(match.group(0)), \"decoded.hexadecimal\", *match.span(0))\n        for match in re.finditer(HEX_RE, data)\n    ]", "R3-value-only", also=[dict(file=D + "hex.py", old="HEX_SPACE_RE =", new="_SEEN: set = set()\nHEX_SPACE_RE =")])
N("C08", "locals renamed", MD, "", "", edits=[("decode_end", "shadow_end"), ("offset", "base"), ("stack", "ctxs")], replace_all=True)
N("C04", "roles renamed", MD, "", "", edits=[("decode_end", "shadow_end"), ("offset", "base"), ("stack", "ctxs")], replace_all=True)
N("C06", "roles renamed", MD, "", "", edits=[("decode_end", "shadow_end"), ("offset", "base"), ("stack", "ctxs")], replace_all=True)
N("C08", "initialisation order changed", MD, "        stack: list[Node] = []\n        decode_end = 0  # end of the last decoded context\n", "        decode_end = 0  # end of the last decoded context\n        stack: list[Node] = []\n")

# ------------------------------------------------------------------ C02 (structural clauses)
PS_INT = 'return int(stripped.decode(), 16 if stripped.lower().startswith(b"0x") else 10)'
B("C02", "int(x, 0) rejects zero-padded decimals (seed s28)", PSF, PS_INT, "return int(stripped.decode(), 0)", "R1-conversion-total")
B("C02", "hex prefix test is case-sensitive again", PSF, PS_INT, 'return int(stripped.decode(), 16 if stripped.startswith(b"0x") else 10)', "R1-conversion-total")
B("C02", "byte-array elements always read as decimal", PSF, PS_INT, "return int(stripped.decode())", "R1-conversion-total")
B("C02", "xml hex reference keeps its x", XMLF, "int(x[1:], base=16) if x.startswith", "int(x, base=16) if x.startswith", "R1-conversion-total")
B("C02", "xml split keeps the empty tail", XMLF, '.split(b";")[:-1]', '.split(b";")', "R1-conversion-total")
B("C02", "xml upper-case X read as decimal", XMLF, 'x.startswith((b"x", b"X"))', 'x.startswith(b"x")', "R1-conversion-total")
B("C02", "xor key pattern admits hex digits", XH, 'XOR_RE = rb"(?i)-b?xor\\s*(\\d{1,3})"', 'XOR_RE = rb"(?i)-b?xor\\s*([0-9a-f]{1,3})"', "R1-conversion-total")
B("C02", "chr argument may be signed", CHRF, 'CHR_RE = rb"(?i)chr[bw]?\\((0*\\d{1,5})\\)"', 'CHR_RE = rb"(?i)chr[bw]?\\(([+-]*\\d{1,5})\\)"', "R1-conversion-total")
B("C02", "FromHexString argument may have odd length", HEXF, "unhexlify(match.group(2))", "unhexlify(match.group(2)[1:])", "R")
B("C02", "decoded hit re-scanned two levels down", MD, "self.scan_node(hit, depth_limit - 1)", "self.scan_node(hit, depth_limit - 2)", "R2-peel-next-layer")
B("C02", "decoded arm re-scans the context, not the hit", MD, "self.scan_node(hit, depth_limit - 1)", "self.scan_node(node, depth_limit - 1)", "R2-peel-next-layer")
B("C02", "decoded hits are not re-scanned", MD, "                self.scan_node(hit, depth_limit - 1)\n", "                pass\n", "R2-peel-next-layer")
B("C02", "atob node covers only the argument", B64, 'out.append(Node("javascript.string", b64, "encoding.base64", *match.span()))', 'out.append(Node("javascript.string", b64, "encoding.base64", *match.span(1)))', "R3-whole-expression")
B("C02", "bare hex node is anonymous", HEXF, 'Node("", unhexlify(match.group(0)), "decoded.hexadecimal", *match.span(0))', 'Node("", unhexlify(match.group(0)), "", *match.span(0))', "R4-layer-named")
B("C02", "reverse keeps the quotes (via C15)", REV, "[-2:0:-1]", "[::-1]", "R5-via-C15")
B("C02", "caret literal inside quotes dropped (via C16)", SH, 'elif character == ord("^") and not in_string:', 'elif character == ord("^"):', "R5-via-C16")
N("C02", "prefix test on a slice", PSF, PS_INT, 'return int(stripped.decode(), 16 if stripped[:2].lower() == b"0x" else 10)')
N("C02", "prefix test with both spellings", PSF, PS_INT, 'return int(stripped.decode(), 16 if stripped.startswith((b"0x", b"0X")) else 10)')
N("C02", "strip after decode", PSF, "        stripped = byte.strip()\n        " + PS_INT, '        stripped = byte.strip()\n        return int(byte.decode().strip(), 16 if stripped.lower().startswith(b"0x") else 10)')
N("C02", "xml decimal base spelled out", XMLF, "else int(x) for x in", "else int(x, 10) for x in")
N("C02", "depth via a temporary", MD, "                self.scan_node(hit, depth_limit - 1)", "                remaining = depth_limit - 1\n                self.scan_node(hit, remaining)")

# ------------------------------------------------------------------ neutral idioms from the refactoring round (DESIGN.md section 13)
SWAP_OLD = "            if hit.value.lower() != hit.original.lower() or hit.children:\n                # Add decoded result and check for new IOCs\n                decode_end = hit.end + offset\n                self.scan_node(hit, depth_limit - 1)\n            else:\n                # No need to rescan, set as context\n                stack.append(node)\n                node = hit\n                offset += hit.start\n"
SWAP_NEW = "            decoded = hit.value.lower() != hit.original.lower() or hit.children\n            if not decoded:\n                stack.append(node)\n                node = hit\n                offset += hit.start\n            else:\n                decode_end = hit.end + offset\n                self.scan_node(hit, depth_limit - 1)\n"
for _p in ("C02", "C04", "C05", "C06", "C08"):
    N(_p, "decoded test through a temporary, arms swapped", MD, SWAP_OLD, SWAP_NEW)
SORT_OLD = "        results = sorted(\n            (hit for search in self.decoders for hit in search(node.value) if hit.value),\n            key=lambda t: (t.start, -t.end),\n        )\n"
SORT_NEW = "        results = []\n        for search in self.decoders:\n            results.extend(found for found in search(node.value) if found.value)\n        results.sort(key=lambda found: (found.start, -found.end))\n"
for _p in ("C05", "C06", "C08", "C09"):
    N(_p, "hits collected by an extend loop and sorted in place", MD, SORT_OLD, SORT_NEW)
ORIG_OLD = "        if self.parent:\n            return self.parent.value[self.start : self.end]\n        return self.value\n"
ORIG_NEW = "        if not self.parent:\n            return self.value\n        return self.parent.value[self.start : self.end]\n"
for _p in ("C03", "C04", "C06"):
    N(_p, "Node.original arms swapped", NODE, ORIG_OLD, ORIG_NEW)
N("C03", "root through a temporary", MD, 'return self.scan_node(Node("", data, "", 0, len(data)), depth_limit)', 'root = Node("", data, "", 0, len(data))\n        return self.scan_node(root, depth_limit)')
N("C19", "annotated accumulator", NODE, "        output = []\n        for node in self.children:", "        output: list[bytes] = []\n        for node in self.children:")
N("C20", "reversed() in make_label", QUERY, 'return "/".join(label_list[::-1])', 'return "/".join(reversed(label_list))')
N("C10", "is_domain through rpartition", NET, '    parts = domain.rsplit(b".", 1)\n    if len(parts) != 2:\n        return False\n    name, tld = parts\n', '    name, dot, tld = domain.rpartition(b".")\n    if not dot:\n        return False\n')
N("C01", "is_domain through rpartition", NET, '    parts = domain.rsplit(b".", 1)\n    if len(parts) != 2:\n        return False\n    name, tld = parts\n', '    name, dot, tld = domain.rpartition(b".")\n    if not dot:\n        return False\n')
N("C11", "domain filters merged into one positive test", NET, "        if not is_domain(domain) or len(domain) < 7:\n            continue\n        if domain_is_false_positive(domain):\n            continue\n        out.append(match_to_hit(DOMAIN_TYPE, match))\n", "        if is_domain(domain) and len(domain) >= 7 and not domain_is_false_positive(domain):\n            out.append(match_to_hit(DOMAIN_TYPE, match))\n")
N("C17", "find loop written with != -1 and a size temporary", KW, "    start = data.find(keyword)\n    while start >= 0:\n        end = start + len(keyword)\n", "    size = len(keyword)\n    start = data.find(keyword)\n    while start != -1:\n        end = start + size\n", also=[dict(file=KW, old="        start = data.find(keyword, start + len(keyword))", new="        start = data.find(keyword, end)")])
N("C01", "find loop written with != -1", KW, "    while start >= 0:", "    while start != -1:")
N("C18", "module name through a temporary, filters merged", REG, "        if include and submod_info.name not in include:\n            continue\n        if exclude and submod_info.name in exclude:\n            continue\n        submodule = importlib.import_module(\".\" + submod_info.name, package=multidecoder.decoders.__name__)\n", "        name = submod_info.name\n        if (include and name not in include) or (exclude and name in exclude):\n            continue\n        submodule = importlib.import_module(\".\" + name, package=multidecoder.decoders.__name__)\n")
N("C14", "xml references through a temporary and renamed", XMLF, '    return bytes(\n        int(x[1:], base=16) if x.startswith((b"x", b"X")) else int(x) for x in data.replace(b"&#", b"").split(b";")[:-1]\n    )\n', '    refs = data.replace(b"&#", b"").split(b";")[:-1]\n    return bytes(int(ref[1:], base=16) if ref.startswith((b"x", b"X")) else int(ref) for ref in refs)\n')
N("C01", "xml references through a temporary and renamed", XMLF, '    return bytes(\n        int(x[1:], base=16) if x.startswith((b"x", b"X")) else int(x) for x in data.replace(b"&#", b"").split(b";")[:-1]\n    )\n', '    refs = data.replace(b"&#", b"").split(b";")[:-1]\n    return bytes(int(ref[1:], base=16) if ref.startswith((b"x", b"X")) else int(ref) for ref in refs)\n')
B("C20", "CLI strips a UTF-8 BOM from file input (seed s56)", MAIN, "            return\n    else:\n        data = sys.stdin.buffer.read()", "            return\n        if data.startswith(b\"\\xef\\xbb\\xbf\"):\n            data = data[3:]\n    else:\n        data = sys.stdin.buffer.read()", "R3-cli")

# ------------------------------------------------------------------ rules added after sub-agent rounds 4-6
XT = "src/multidecoder/xortool.py"
B("C01", "xortool key enumeration no longer bounded (D29)", XT, "    if key_count > MAX_GUESSED_KEYS:\n        key_possible_bytes = [possible_bytes[:1] for possible_bytes in key_possible_bytes]\n", "", "R4-enumeration-bound")
N("C01", "enumeration bound leaves instead of truncating", XT, "    if key_count > MAX_GUESSED_KEYS:\n        key_possible_bytes = [possible_bytes[:1] for possible_bytes in key_possible_bytes]\n", "    if key_count > MAX_GUESSED_KEYS:\n        return []\n")
B("C09", "keyword files sorted case-insensitively (seed s45)", REG, "        for file_name in sorted(files):", "        for file_name in sorted(files, key=str.casefold):", "R1-order-taint")
B("C12", "user name cut at the last colon (seed s48)", NET, 'username, password = userinfo.split(b":", 1) if b":" in userinfo else (userinfo, b"")', 'username, password = userinfo.rsplit(b":", 1) if b":" in userinfo else (userinfo, b"")', "R2-layout")
N("C12", "userinfo through partition", NET, 'username, password = userinfo.split(b":", 1) if b":" in userinfo else (userinfo, b"")', 'username, _, password = userinfo.partition(b":")')
B("C12", "userinfo through rpartition", NET, 'username, password = userinfo.split(b":", 1) if b":" in userinfo else (userinfo, b"")', 'username, _, password = userinfo.rpartition(b":")', "R2-layout")
N("C16", "caret label as if/return", SH, '    return stripped, "unescape.shell.carets" if stripped != cmd else ""', '    if stripped == cmd:\n        return stripped, ""\n    return stripped, "unescape.shell.carets"')
B("C16", "caret label as if/return, inverted", SH, '    return stripped, "unescape.shell.carets" if stripped != cmd else ""', '    if stripped != cmd:\n        return stripped, ""\n    return stripped, "unescape.shell.carets"', "R2-label")
N("C10", "percent label arms swapped", NET, 'return normalized, "escape.percent" if len(normalized) < len(uri) else ""', 'return normalized, "" if len(normalized) >= len(uri) else "escape.percent"')
B("C10", "percent label arms swapped, off by one", NET, 'return normalized, "escape.percent" if len(normalized) < len(uri) else ""', 'return normalized, "" if len(normalized) > len(uri) else "escape.percent"', "R4-percent")
N("C17", "is_mixed_case as any()", KW, "    for v, d in zip(raw, value):\n        # Check for case discrepancy between byte characters\n        if (chr(v).isupper() and not chr(d).isupper()) or (chr(v).islower() and not chr(d).islower()):\n            return True\n\n    return False\n", "    return any(\n        (chr(v).isupper() and not chr(d).isupper()) or (chr(v).islower() and not chr(d).islower())\n        for v, d in zip(raw, value)\n    )\n")
N("C18", "blank lines dropped by a set comprehension", REG, '                keywords = set(keyword_file.read().splitlines())\n                keywords.discard(b"")\n', "                keywords = {line for line in keyword_file.read().splitlines() if line}\n")
N("C18", "default directory as an if statement", REG, '    directory = directory or os.path.join(next(iter(multidecoder.__path__)), "keywords")\n', '    if not directory:\n        directory = os.path.join(next(iter(multidecoder.__path__)), "keywords")\n')
N("C03", "constructor re-parents through self.children", NODE, "        if children:\n            self.children = children\n            for child in children:\n                child.parent = self\n        else:\n            self.children = []\n", "        self.children = children if children else []\n        for child in self.children:\n            child.parent = self\n")
N("C20", "encoder arms swapped", JS, "        if isinstance(node, Node):\n            return node_to_dict(node)\n        return json.JSONEncoder.default(self, node)\n", "        if not isinstance(node, Node):\n            return json.JSONEncoder.default(self, node)\n        return node_to_dict(node)\n")
N("C14", "chr hit appended in the else clause", CHRF, "        except (ValueError, UnicodeEncodeError):\n            continue\n        out.append(Node(\"string\", character, \"function.chr\", *match.span()))\n", "        except (ValueError, UnicodeEncodeError):\n            pass\n        else:\n            out.append(Node(\"string\", character, \"function.chr\", *match.span()))\n")
N("C01", "closing delimiter looked up in a constant table", SH, "                if bound == b\"'(\":\n                    # In a cmd FOR loop, find the end paren\n                    end = data.find(b\"')\", start)\n                elif bound == b'\"':\n                    # In a double quoted string, find the end quote\n                    end = data.find(b'\"', start)\n                else:\n                    # In a single quoted string, find the end quote\n                    end = data.find(b\"'\", start)\n", "                end = data.find({b\"'(\": b\"')\", b'\"': b'\"', b\"'\": b\"'\"}[bound], start)\n")
PEF2 = D + "pe_file.py"
B("C11", "pe_size from the last section (seed s47)", PEF2, "        return max((section.PointerToRawData + section.SizeOfRawData for section in pe.sections), default=0)", "        if not pe.sections:\n            return 0\n        last_section = pe.sections[-1]\n        return last_section.PointerToRawData + last_section.SizeOfRawData", "R7-pe-extent")
N("C11", "pe_size as an accumulating loop", PEF2, "        return max((section.PointerToRawData + section.SizeOfRawData for section in pe.sections), default=0)", "        size = 0\n        for section in pe.sections:\n            size = max(size, section.PointerToRawData + section.SizeOfRawData)\n        return size")
HEX_NEW = 'HEX_RE = rb"((?=[0-9]*[a-f])(?:[a-f0-9]{2}){10,}|(?:[A-F0-9]{2}){10,})"'
B("C13", "lower-case alternative tried first without the letter test (D30)", HEXF, HEX_NEW, 'HEX_RE = rb"((?:[a-f0-9]{2}){10,}|(?:[A-F0-9]{2}){10,})"', "R3-acceptance")
B("C13", "hex alternatives swapped (round-7 seed)", HEXF, HEX_NEW, 'HEX_RE = rb"((?:[A-F0-9]{2}){10,}|(?:[a-f0-9]{2}){10,})"', "R3-acceptance")
N("C13", "upper-case alternative guarded symmetrically", HEXF, HEX_NEW, 'HEX_RE = rb"((?=[0-9]*[a-f])(?:[a-f0-9]{2}){10,}|(?=[0-9]*(?:[A-F]|[^0-9a-f]|$))(?:[A-F0-9]{2}){10,})"')

# ------------------------------------------------------------------ rules added after the adversarial round 7 (seeds s57-s76)
EQ_END = "            and self.children == other.children\n        )\n"
LEN_DEF = EQ_END + "\n    def __len__(self) -> int:\n        return max(self.end - self.start, 0)\n"
for _p, _e in (("C03", "R7-original"), ("C04", "R-original"), ("C05", "R-original"), ("C06", "R-original"), ("C08", "R1-fresh-recursive-scan")):
    B(_p, "Node gains a span-length __len__ (seeds s60-s62)", NODE, EQ_END, LEN_DEF, _e)
    N(_p, "Node gains __bool__ returning True", NODE, EQ_END, EQ_END + "\n    def __bool__(self) -> bool:\n        return True\n")
B("C04", "Node gains __bool__ on the value", NODE, EQ_END, EQ_END + "\n    def __bool__(self) -> bool:\n        return bool(self.value)\n", "R-original")
XT_LOOP = "        keys = guess_keys(text, c, known_key_length)\n        for key in keys:\n            key_char_used[key] = c\n            if key not in probable_keys:\n                probable_keys.append(key)\n"
B("C09", "new keys taken from a dict-view difference (seed s65)", XT, XT_LOOP, "        keys = dict.fromkeys(guess_keys(text, c, known_key_length), c)\n        probable_keys.extend(keys.keys() - key_char_used.keys())\n        key_char_used.update(keys)\n", "R1-order-taint")
N("C09", "new keys filtered in order through a comprehension", XT, XT_LOOP, "        keys = dict.fromkeys(guess_keys(text, c, known_key_length), c)\n        probable_keys.extend([key for key in keys if key not in key_char_used])\n        key_char_used.update(keys)\n")
DQ_OLD = "DOUBLE_QUOTE_STRING_RE = rb'\"(?:[^\"`\\\\]*(?:\"\"|`.|\\\\[^\"]|\\\\\"\"?))*[^\"`\\\\]*\"'"
B("C01", "escaped backslash added as an overlapping alternative (seed s57)", CONC, DQ_OLD, "DOUBLE_QUOTE_STRING_RE = rb'\"(?:[^\"`\\\\]*(?:\"\"|`.|\\\\\\\\|\\\\[^\"]|\\\\\"\"?))*[^\"`\\\\]*\"'", "R5-regex-backtracking")
N("C01", "escaped backslash as a disjoint alternative", CONC, DQ_OLD, "DOUBLE_QUOTE_STRING_RE = rb'\"(?:[^\"`\\\\]*(?:\"\"|`.|\\\\\\\\|\\\\[^\"\\\\]|\\\\\"\"?))*[^\"`\\\\]*\"'")
B("C01", "single-quote string with overlapping alternatives", CONC, "SINGLE_QUOTE_STRING_RE = rb\"'(?:[^']*'')*[^']*'\"", "SINGLE_QUOTE_STRING_RE = rb\"'(?:(?:[^']|[a-z])*'')*[^']*'\"", "R5-regex-backtracking")
PCT_OLD = '        byte = binascii.unhexlify(match.group(1))\n        if b"A" <= byte <= b"Z" or b"a" <= byte <= b"z" or b"0" <= byte <= b"9" or byte in (b"-", b".", b"_", b"~"):\n            return byte\n        return match.group(0).upper()\n'
PCT_S67 = '        char = chr(int(match.group(1), 16))\n        if char.isalnum() or char in "-._~":\n            return char.encode("latin-1")\n        return match.group(0).upper()\n'
for _p, _e in (("C10", "R4-percent"), ("C11", "via-C10.R4-percent")):
    B(_p, "unreserved test through str.isalnum (seed s67)", NET, PCT_OLD, PCT_S67, _e)
    N(_p, "unreserved test through bytes.isalnum", NET, PCT_OLD, '        byte = bytes.fromhex(match.group(1).decode())\n        if byte.isalnum() or byte in b"-._~":\n            return byte\n        return match.group(0).upper()\n')
    N(_p, "unreserved test on the code point, ASCII only", NET, PCT_OLD, '        code = int(match.group(1), 16)\n        char = chr(code)\n        if code < 128 and (char.isalnum() or char in "-._~"):\n            return bytes([code])\n        return match[0].upper()\n')
    B(_p, "tilde not treated as unreserved", NET, PCT_OLD, PCT_OLD.replace(', b"~")', ")"), _e)
V6_OLD = "        address = IPv6Address(socket.inet_pton(socket.AF_INET6, ip.decode()))\n    except (OSError, AddressValueError, UnicodeDecodeError) as ex:"
B("C12", "IPv6 host parsed from text, scoped addresses accepted (seed s68)", NET, V6_OLD, "        address = IPv6Address(ip.decode())\n    except (AddressValueError, UnicodeDecodeError) as ex:", "via-C10.R1-validator-dominance")
XH = "src/multidecoder/xor_helper.py"
B("C20", "xor child appended without its parent (seed s76)", XH, '            end=len(data),\n            parent=node,\n', '            end=len(data),\n', "via-C03.R3-pairing")
CONC_OLD = "@decoder\ndef find_concat(data: bytes) -> list[Node]:"
for _p, _e in (("C15", "R5-fresh-hits"), ("C03", "R8-fresh-nodes")):
    B(_p, "find_concat memoised under the decoder marker (seed s71)", CONC, "import regex as re\n\nfrom multidecoder.node import Node", "import functools\n\nimport regex as re\n\nfrom multidecoder.node import Node", _e,
      also=[dict(file=CONC, old=CONC_OLD, new="@decoder\n@functools.lru_cache(maxsize=32)\ndef find_concat(data: bytes) -> list[Node]:")])
FUT = "from __future__ import annotations\n"
FUT_FT = FUT + "\nimport functools\n"
for _p, _f, _old in (("C10", NET, "def parse_ip(ip: bytes) -> Node:"), ("C11", NET, "def match_to_hit("), ("C12", NET, "def parse_url(url_text: bytes) -> list[Node]:"),
                     ("C13", D + "base64.py", "def find_base64(data: bytes) -> list[Node]:"), ("C14", XMLF, "def find_xml_hex(data: bytes) -> list[Node]:"),
                     ("C16", SH, "def get_cmd_command(cmd: bytes) -> bytes:")):
    pass
MEMO = [("C10", NET, "def parse_ip(ip: bytes) -> Node:"), ("C12", NET, "def parse_url(url_text: bytes) -> list[Node]:"), ("C11", NET, "def parse_ipv6(ip: bytes) -> Node:"),
        ("C13", D + "base64.py", "def find_base64(data: bytes) -> list[Node]:"), ("C14", XMLF, "def find_xml_hex(data: bytes) -> list[Node]:"),
        ("C16", SH, "def find_cmd_strings(data: bytes) -> list[Node]:"), ("C17", KW, "def find_keywords(")]
for _p, _f, _old in MEMO:
    B(_p, "node-building function on the decoder path memoised", _f, _old, "@functools.lru_cache(maxsize=None)\n" + _old, "R0-fresh-hits", also=[dict(file=_f, old=FUT, new=FUT_FT)])
PURE = [("C10", NET, "def is_domain(domain: bytes) -> bool:"), ("C11", NET, "def is_domain(domain: bytes) -> bool:"), ("C03", NET, "def is_domain(domain: bytes) -> bool:"),
        ("C08", NET, "def is_domain(domain: bytes) -> bool:"), ("C09", NET, "def is_domain(domain: bytes) -> bool:"), ("C01", NET, "def is_domain(domain: bytes) -> bool:"),
        ("C14", XMLF, "def unescape_xml(data: bytes) -> bytes:"), ("C16", SH, "def strip_carets(cmd: bytes) -> bytes:"), ("C01", SH, "def strip_carets(cmd: bytes) -> bytes:")]
for _p, _f, _old in PURE:
    N(_p, "pure bytes helper memoised", _f, _old, "@functools.lru_cache(maxsize=4096)\n" + _old, also=[dict(file=_f, old=FUT, new=FUT_FT)])
# the functional spelling of a cache (seed u01): ALIAS = lru_cache(...)(f) with the alias called from the decoder
_WRAP_OLD = "@decoder\ndef find_ips(data: bytes) -> list[Node]:\n"
_WRAP_NEW = "_parse_ip_cached = functools.lru_cache(maxsize=1024)(parse_ip)\n\n\n" + _WRAP_OLD
_CALL_OLD = "        out.append(parse_ip(match.group()).shift(match.start()))\n"
for _p in ("C01", "C10", "C11", "C12"):
    B(_p, "parse_ip called through a module-level lru_cache wrapper (seed u01)", NET, _WRAP_OLD, _WRAP_NEW, "fresh-hits",
      also=[dict(file=NET, old=_CALL_OLD, new="        out.append(_parse_ip_cached(match.group()).shift(match.start()))\n"), dict(file=NET, old=FUT, new=FUT_FT)])
for _p in ("C01", "C10"):
    N(_p, "pure predicate called through a module-level cache wrapper", NET, _WRAP_OLD, "_is_ip_cached = functools.cache(is_ip)\n\n\n" + _WRAP_OLD,
      also=[dict(file=NET, old="        if not is_ip(ip):\n            continue\n        if all(byte in b\"0x.\"", new="        if not _is_ip_cached(ip):\n            continue\n        if all(byte in b\"0x.\""), dict(file=NET, old=FUT, new=FUT_FT)])
B("C11", "false-positive verdicts remembered in a module-level set (seed u18)", NET, "    domain_lower = domain.lower()\n", "    domain_lower = domain.lower()\n    if domain_lower in _REJECTED:\n        return True\n    _REJECTED.add(domain_lower)\n", "R3-shared-writes",
  also=[dict(file=NET, old="# False Positives\n", new="# False Positives\n_REJECTED: set[bytes] = set()\n")])
B("C08", "rescan depth also charged for the open contexts (seed u04)", MD, "self.scan_node(hit, depth_limit - 1)", "self.scan_node(hit, depth_limit - len(stack) - 1)", "R2-decrement")
B("C01", "memoised function takes a Node", "src/multidecoder/xor_helper.py", "def apply_xor_key(", "@functools.lru_cache(maxsize=16)\ndef apply_xor_key(", "R1-exception-escape",
  also=[dict(file="src/multidecoder/xor_helper.py", old="import regex as re\n", new="import functools\n\nimport regex as re\n")])

# ------------------------------------------------------------------ rules added after round 8 (seeds s77-s96)
SC_INIT = "    in_string = False\n    out = []\n    i = 0\n"
N("C16", "early return when the text holds no caret", SH, SC_INIT, "    if b\"^\" not in cmd:\n        return cmd\n" + SC_INIT)
N("C16", "early return through a find() temporary", SH, SC_INIT, "    first = cmd.find(b\"^\")\n    if first < 0:\n        return cmd\n" + SC_INIT)
B("C16", "early return when the text holds no quote", SH, SC_INIT, "    if b'\"' not in cmd:\n        return cmd\n" + SC_INIT, "R6-caret-machine")
B("C16", "scan resumes at the first caret with a guessed quote state (seed s92)", SH, SC_INIT,
  "    first = cmd.find(b\"^\")\n    if first < 0:\n        return cmd\n    line_start = cmd.rfind(b\"\\n\", 0, first) + 1\n    in_string = cmd.count(b'\"', line_start, first) % 2 == 1\n    out = list(cmd[:first])\n    i = first\n", "R6-caret-machine")
PEF3 = D + "pe_file.py"
B("C11", "MZ scan with a look-ahead that stops at a newline byte (seed s87)", PEF3, 're.finditer(b"MZ", data)', 're.finditer(rb"MZ(?=.{62})", data)', "R7-pe-extent")
N("C11", "MZ scan with a DOTALL look-ahead for the DOS header", PEF3, 're.finditer(b"MZ", data)', 're.finditer(rb"(?s)MZ(?=.{62})", data)')
B("C11", "MZ scan case-insensitive", PEF3, 're.finditer(b"MZ", data)', 're.finditer(rb"(?i)MZ", data)', "R7-pe-extent")
XML_OLD = 'XML_ESCAPE_RE = rb"(?i)(?:&#(x[a-f0-9]{2}|(?:25[0-5]|2[0-4][0-9]|[0-1]?[0-9]{1,2}));){5,}"'
B("C14", "possessive digit prefix (seed s90)", XMLF, XML_OLD, 'XML_ESCAPE_RE = rb"(?i)(?:&#(x[a-f0-9]{2}|(?:25[0-5]|2[0-4][0-9]|[0-1]?+[0-9]{1,2}+));){5,}+"', "R0-no-cut")
N("C14", "possessive run quantifier at the end of the pattern", XMLF, XML_OLD, 'XML_ESCAPE_RE = rb"(?i)(?:&#(x[a-f0-9]{2}|(?:25[0-5]|2[0-4][0-9]|[0-1]?[0-9]{1,2}));){5,}+"')
B("C02", "possessive digit prefix in the XML pattern", XMLF, XML_OLD, 'XML_ESCAPE_RE = rb"(?i)(?:&#(x[a-f0-9]{2}|(?:25[0-5]|2[0-4][0-9]|[0-1]?+[0-9]{1,2}+));){5,}+"', "R5-via-C14.R0-no-cut")
B("C12", "empty segment pushed after the loop for a trailing dot segment (seed s88)", NET, '    if dotless == [b""]:\n        # Maintain starting / if the entire path is dot segments\n        return b"/", "url.dotpath"\n',
  '    if dotless == [b""]:\n        # Maintain starting / if the entire path is dot segments\n        return b"/", "url.dotpath"\n    if segments[-1] in (b".", b".."):\n        dotless.append(b"")\n', "R4-labels")
B("C10", "closing delimiter trims the span but not the text that is normalised", NET, "                end = start + close\n                group = group[:close]\n", "                end = start + close\n", "R4-percent")
B("C10", "text normalised before it is trimmed (seed s86)", NET, "        url, obfuscation = normalize_percent_encoding(group)\n", "        url, obfuscation = normalize_percent_encoding(match.group())\n", "R4-percent")
N("C10", "trimmed text through a differently named temporary", NET, "        url, obfuscation = normalize_percent_encoding(group)\n", "        covered = group\n        url, obfuscation = normalize_percent_encoding(covered)\n")
SORT_OLD2 = "        results = sorted(\n            (hit for search in self.decoders for hit in search(node.value) if hit.value),\n            key=lambda t: (t.start, -t.end),\n        )\n"
for _p, _e in (("C03", "R6-rebase-in-bounds"), ("C05", "V2")):
    B(_p, "per-decoder lists merged instead of sorted (seeds s79 / s81)", MD, SORT_OLD2,
      "        results = heapq.merge(\n            *([hit for hit in search(node.value) if hit.value] for search in self.decoders),\n            key=lambda t: (t.start, -t.end),\n        )\n", _e,
      also=[dict(file=MD, old="from __future__ import annotations\n", new="from __future__ import annotations\n\nimport heapq\n")])

# ------------------------------------------------------------------ E13 normaliser: extracted private helpers, hoisted temporaries, saved root (round 9)
RET_OLD = "        return stack[0] if stack else node\n"
SELF_OLD = "            if hit.start == 0 and hit.value == node.value and hit.type == node.type:\n"
SELF_HELPER = "\n\ndef _is_self_match(hit: Node, context: Node) -> bool:\n    return hit.start == 0 and hit.value == context.value and hit.type == context.type\n"
SELF_HELPER_BAD = "\n\ndef _is_self_match(hit: Node, context: Node) -> bool:\n    return hit.start == 0 and hit.value == context.value\n"
KEY_OLD = "            key=lambda t: (t.start, -t.end),\n"
KEY_HELPER = "\n\ndef _span_order(hit: Node) -> tuple[int, int]:\n    return hit.start, -hit.end\n"
KEY_HELPER_BAD = "\n\ndef _span_order(hit: Node) -> tuple[int, int]:\n    return hit.start, hit.end\n"
DEC_OLD = "            if hit.value.lower() != hit.original.lower() or hit.children:\n"
DEC_HELPER = "\n\ndef _is_decoded(hit: Node) -> bool:\n    changed = hit.value.lower() != hit.original.lower()\n    return changed or bool(hit.children)\n"
for _p in ("C01", "C02", "C03", "C04", "C05", "C06", "C07", "C08", "C09"):
    N(_p, "self-match test extracted into a private helper", MD, SELF_OLD, "            if _is_self_match(hit, node):\n", also=[dict(file=MD, old=RET_OLD, new=RET_OLD + SELF_HELPER)])
    N(_p, "sort key as a named private function", MD, KEY_OLD, "            key=_span_order,\n", also=[dict(file=MD, old=RET_OLD, new=RET_OLD + KEY_HELPER)])
    N(_p, "decoded test extracted into a two-statement private helper", MD, DEC_OLD, "            if _is_decoded(hit):\n", also=[dict(file=MD, old=RET_OLD, new=RET_OLD + DEC_HELPER)])
    N(_p, "remaining depth hoisted into a temporary", MD, "        if node.children:\n            # Don't rescan nodes with existing children\n",
      "        remaining = depth_limit - 1\n        if node.children:\n            # Don't rescan nodes with existing children\n",
      also=[dict(file=MD, old="self.scan_node(child, depth_limit - 1)", new="self.scan_node(child, remaining)"), dict(file=MD, old="self.scan_node(hit, depth_limit - 1)", new="self.scan_node(hit, remaining)")])
    N(_p, "root saved before the loop and returned", MD, "        stack: list[Node] = []\n", "        root = node\n        stack: list[Node] = []\n", also=[dict(file=MD, old=RET_OLD, new="        return root\n")])
B("C06", "extracted self-match helper forgets the type comparison", MD, SELF_OLD, "            if _is_self_match(hit, node):\n", "V6", also=[dict(file=MD, old=RET_OLD, new=RET_OLD + SELF_HELPER_BAD)])
B("C05", "named sort key orders equal starts shortest first", MD, KEY_OLD, "            key=_span_order,\n", "V2", also=[dict(file=MD, old=RET_OLD, new=RET_OLD + KEY_HELPER_BAD)])
B("C07", "hoisted remaining depth does not decrement", MD, "        if node.children:\n            # Don't rescan nodes with existing children\n",
  "        remaining = depth_limit\n        if node.children:\n            # Don't rescan nodes with existing children\n", "R2-decrement",
  also=[dict(file=MD, old="self.scan_node(child, depth_limit - 1)", new="self.scan_node(child, remaining)"), dict(file=MD, old="self.scan_node(hit, depth_limit - 1)", new="self.scan_node(hit, remaining)")])
B("C03", "saved 'root' is taken after the first context push", MD, "                node = hit\n", "                node = hit\n                root = node\n", "R2-return-root",
  also=[dict(file=MD, old=RET_OLD, new="        return root\n"), dict(file=MD, old="        stack: list[Node] = []\n", new="        root = node\n        stack: list[Node] = []\n")])

# ------------------------------------------------------------------ tolerances added for the invasive neutral round (p01-p20)
PATHF = D + "path.py"
WDP = '        obfuscation = "windows.dotpath" if len(path) < length else ""\n'
N("C12", "windows dotpath label with swapped arms", PATHF, WDP, '        obfuscation = "" if len(path) >= length else "windows.dotpath"\n')
N("C12", "windows dotpath label compared the other way round", PATHF, WDP, '        obfuscation = "windows.dotpath" if length > len(path) else ""\n')
B("C12", "windows dotpath label also when the length is unchanged", PATHF, WDP, '        obfuscation = "windows.dotpath" if len(path) <= length else ""\n', "R4-labels")
B("C12", "windows dotpath label compares with the normalised length itself", PATHF, "        length = len(path)\n        path = ntpath.normpath(path)\n", "        path = ntpath.normpath(path)\n        length = len(path)\n", "R4-labels")
N("C12", "dropped segment removed with del", NET, "                dotless.pop()\n", "                del dotless[-1]\n")
N("C12", "url.dotpath label with swapped arms and !=", NET, '    return b"/".join(dotless), "url.dotpath" if len(dotless) < len(segments) else ""', '    return b"/".join(dotless), "" if len(dotless) == len(segments) else "url.dotpath"')
B("C12", "url.dotpath label inverted", NET, '    return b"/".join(dotless), "url.dotpath" if len(dotless) < len(segments) else ""', '    return b"/".join(dotless), "url.dotpath" if len(dotless) == len(segments) else ""', "R4-labels")
N("C12", "MixedCase test as two inequalities", NET, "if url_text[0 : len(url.scheme)] not in (url.scheme, url.scheme.upper())", "if url_text[0 : len(url.scheme)] != url.scheme and url_text[0 : len(url.scheme)] != url.scheme.upper()")
N("C15", "StrReverse value through bytes(reversed(...))", D + "vba.py", 'lambda s: (s[-2:0:-1], "vba.reverse")', 'lambda s: (bytes(reversed(s[1:-1])), "vba.reverse")')
B("C15", "StrReverse value is the reversed literal with its quotes", D + "vba.py", 'lambda s: (s[-2:0:-1], "vba.reverse")', 'lambda s: (bytes(reversed(s)), "vba.reverse")', "R1-evaluation")

# ------------------------------------------------------------------ rules added after round 10 (seeds t01-t20)
GUARD_OLD = '            if dotless and dotless != [b""]:  # .. cannot go above the root of an absolute path\n'
B("C12", "'..' refuses to cancel any empty segment (seed t12)", NET, GUARD_OLD, "            if dotless and dotless[-1]:\n", "R4-labels")
N("C12", "root guard spelled with lengths", NET, GUARD_OLD, "            if len(dotless) > 1 or (dotless and dotless[0]):\n")
B("C16", "look-back slice starts one byte earlier and wraps at offset 0 (seed t16)", SH, "data[start::-1])", "data[start - 1 :: -1])", "R7-delimiting")
IP_OLD = '    try:\n        return b.decode("ascii").isprintable()\n    except UnicodeDecodeError:\n        return False\n'
B("C11", "_is_printable as a full match that rejects the empty text (seed t11)", NET, IP_OLD, '    return re.fullmatch(rb"[\\x20-\\x7e]+", b) is not None\n', "R5-filters")
N("C11", "_is_printable as a full match of printable ASCII, empty text included", NET, IP_OLD, '    return re.fullmatch(rb"[\\x20-\\x7e]*", b) is not None\n')
B("C20", "--replace compares case-insensitively (seed t20)", QUERY, "        if node_data != data[node.start : node.end]:", "        if node_data.lower() != data[node.start : node.end].lower():", "via-C19.R-tiling")
