"""Self-test catalogue: textual edits of /repo's sources (each anchor must occur exactly once).
B = breaking edit that keeps the test-suite green: the property's check must report it at `expect`.
N = behaviour-preserving edit: the check must stay silent."""

MD = "src/multidecoder/multidecoder.py"
NODE = "src/multidecoder/node.py"
KW = "src/multidecoder/keyword.py"
REG = "src/multidecoder/registry.py"
JS = "src/multidecoder/json_conversion.py"
QUERY = "src/multidecoder/query.py"
MAIN = "src/multidecoder/__main__.py"
D = "src/multidecoder/decoders/"

CATALOGUE = []


def B(prop, name, file, old, new, expect, **kw):
    CATALOGUE.append(dict(prop=prop, kind="B", name=name, file=file, old=old, new=new, expect=expect, **kw))


def N(prop, name, file, old, new, **kw):
    CATALOGUE.append(dict(prop=prop, kind="N", name=name, file=file, old=old, new=new, **kw))


# ------------------------------------------------------------------ C07
B("C07", "decoded-arm passes depth unchanged", MD, "self.scan_node(hit, depth_limit - 1)", "self.scan_node(hit, depth_limit)", "R2-decrement")
B("C07", "children-arm passes depth unchanged", MD, "self.scan_node(child, depth_limit - 1)", "self.scan_node(child, depth_limit)", "R2-decrement")
B("C07", "recursion drops the depth argument", MD, "self.scan_node(hit, depth_limit - 1)", "self.scan_node(hit)", "R2-decrement")
B("C07", "depth + 1", MD, "self.scan_node(hit, depth_limit - 1)", "self.scan_node(hit, depth_limit + 1)", "R2-decrement")
B("C07", "guard < 0", MD, "if depth_limit <= 0:", "if depth_limit < 0:", "R1-")
B("C07", "guard == 0", MD, "if depth_limit <= 0:", "if depth_limit == 0:", "R1-")
B("C07", "guard below children arm", MD,
  "        if depth_limit <= 0:\n            return node\n        if node.children:\n            # Don't rescan nodes with existing children\n            for child in node.children:\n                self.scan_node(child, depth_limit - 1)\n            return node\n",
  "        if node.children:\n            # Don't rescan nodes with existing children\n            for child in node.children:\n                self.scan_node(child, depth_limit - 1)\n            return node\n        if depth_limit <= 0:\n            return node\n",
  "R1-guard-dominance")
B("C07", "scan passes a constant", MD, "Node(\"\", data, \"\", 0, len(data)), depth_limit)", "Node(\"\", data, \"\", 0, len(data)), DEFAULT_DEPTH_LIMIT)", "R2-decrement")
B("C07", "depth in sort key", MD, "key=lambda t: (t.start, -t.end),", "key=lambda t: (t.start, -t.end * depth_limit),", "R3-noninterference")
B("C07", "depth passed to decoders", MD, "for hit in search(node.value) if hit.value", "for hit in search(node.value[: 4096 * depth_limit]) if hit.value", "R3-noninterference")
B("C07", "guard returns a copy", MD, "        if depth_limit <= 0:\n            return node\n", "        if depth_limit <= 0:\n            return Node(node.type, node.value)\n", "R1-bare-return")
N("C07", "guard < 1", MD, "if depth_limit <= 0:", "if depth_limit < 1:")
N("C07", "guard not > 0", MD, "if depth_limit <= 0:", "if not depth_limit > 0:")
N("C07", "temporary for remaining depth", MD, "        stack: list[Node] = []\n", "        remaining = depth_limit - 1\n        stack: list[Node] = []\n",
  also=[])
N("C07", "remaining depth via temp used", MD, "                self.scan_node(hit, depth_limit - 1)", "                remaining = depth_limit - 1\n                self.scan_node(hit, remaining)")
N("C07", "keyword depth argument", MD, "self.scan_node(hit, depth_limit - 1)", "self.scan_node(hit, depth_limit=depth_limit - 1)")
