"""Checker self-test: apply catalogue edits to in-memory copies of /repo's sources and require that
each breaking edit (B) is reported by the property's check at the expected rule, and that each neutral
edit (N) leaves the check's verdict unchanged. Nothing is written to /repo; the verdict and evidence of
the property itself always come from the unedited tree.

    python3 -m selftest.runner [Cxx ...]      (cwd=/verif)
"""
from __future__ import annotations

import importlib
import os
import sys
from concurrent.futures import ProcessPoolExecutor

sys.path.insert(0, os.path.dirname(os.path.dirname(os.path.abspath(__file__))))

from mdstatic import core  # noqa: E402
from mdstatic.model import REPO, AnalysisError, Program  # noqa: E402
from mdstatic.rx import RxError  # noqa: E402


def _failing_keys(prop, overrides):
    prog = Program(overrides=overrides)
    mod = importlib.import_module(f"mdstatic.rules.{prop}")
    run = core.Run(prop, "quick", prog, selftest=True)
    core.run_rules(mod, run)
    run.check_floors()
    return {o["key"]: o for o in run.failures()}


def apply_edit(entry, current=None):
    path = os.path.join(REPO, entry["file"])
    if current and entry["file"] in current:
        src = current[entry["file"]]
    else:
        with open(path, encoding="utf-8") as f:
            src = f.read()
    edits = entry.get("edits") or [(entry["old"], entry["new"])]
    for old, new in edits:
        n = src.count(old)
        if entry.get("replace_all") and n >= 1:
            src = src.replace(old, new)
            continue
        if n != 1:
            raise LookupError(f"anchor text occurs {n} times in {entry['file']}: {old!r}")
        src = src.replace(old, new)
    return {entry["file"]: src}


def run_entry(entry):
    """Returns (name, status, message). status in ok / FAIL / SKIP (anchor vanished)."""
    prop = entry["prop"]
    name = f"{prop}:{entry['kind']}:{entry['name']}"
    try:
        ov = {}
        for e in [entry] + entry.get("also", []):
            ov.update(apply_edit(e, ov))
    except LookupError as e:
        return name, "SKIP", str(e)
    try:
        base = _failing_keys(prop, {})
    except (AnalysisError, RxError) as e:
        return name, "SKIP", f"baseline analysis error: {e}"
    try:
        got = _failing_keys(prop, ov)
    except (AnalysisError, RxError) as e:
        if entry["kind"] == "B" and entry.get("expect") == "ANALYSIS-ERROR":
            return name, "ok", "analysis error as expected"
        return name, "FAIL", f"analysis error on the edited copy: {e}"
    except Exception as e:   # noqa: BLE001
        return name, "FAIL", f"internal error on the edited copy: {type(e).__name__}: {e}"
    new = {k: v for k, v in got.items() if k not in base}
    if entry["kind"] == "B":
        exp = entry.get("expect", "")
        hits = [k for k in new if exp in k]
        if hits:
            return name, "ok", hits[0]
        if new:
            return name, "FAIL", f"reported, but not at rule '{exp}': {sorted(new)[:3]}"
        return name, "FAIL", "breaking edit not reported"
    if new:
        k = sorted(new)[0]
        return name, "FAIL", f"neutral edit reported: {k}: {new[k]['what']} {new[k]['detail']}"
    return name, "ok", "silent"


def catalogue(props=None):
    from selftest.catalogue import CATALOGUE
    return [e for e in CATALOGUE if not props or e["prop"] in props]


def run_for_property(prop, jobs=None):
    entries = catalogue([prop])
    return run_entries(entries, jobs)


def run_entries(entries, jobs=None):
    jobs = jobs or min(16, max(1, len(entries)))
    results = []
    if len(entries) <= 2 or jobs == 1:
        results = [run_entry(e) for e in entries]
    else:
        with ProcessPoolExecutor(max_workers=jobs) as ex:
            results = list(ex.map(run_entry, entries))
    fails = [f"{n}: {m}" for n, s, m in results if s == "FAIL"]
    skips = [f"{n}: {m}" for n, s, m in results if s == "SKIP"]
    nb = sum(1 for e in entries if e["kind"] == "B")
    summary = {
        "variants": len(entries), "breaking": nb, "neutral": len(entries) - nb,
        "passed": sum(1 for _n, s, _m in results if s == "ok"), "failed": len(fails), "skipped_anchor_vanished": skips,
        "results": [f"{n}: {s}: {m}" for n, s, m in results],
    }
    return {"summary": summary, "failures": fails}


if __name__ == "__main__":
    props = [a for a in sys.argv[1:] if not a.startswith("-")]
    r = run_entries(catalogue(props or None))
    for line in r["summary"]["results"]:
        print(line)
    print({k: v for k, v in r["summary"].items() if k != "results"})
    sys.exit(1 if r["failures"] else 0)
